"""pyvc engine: path-by-path symbolic execution of real Python function ASTs against sidecar contracts.

Exploration is by *decision replay*: a path is identified by the list of decisions taken at forks; the
function is re-executed from its entry for every path (functions under contract are small), which keeps
expression evaluation an ordinary recursive evaluator.  Loops are cut by invariants from the spec
(init / preserve / exit), calls are replaced by callee contracts (modular), exceptions are abrupt outcomes.
"""
from __future__ import annotations

import ast
import os
import time

import z3

from . import values as V
from .containers import (
    ClassDecl,
    MapItems,
    RangeIter,
    SeqIter,
    SetIter,
    SMap,
    SObj,
    SRange,
    SRef,
    SSeq,
    SSet,
    T,
)
from .values import (
    BoundMethod,
    SBool,
    SInt,
    SMaybe,
    SStr,
    STuple,
    SVal,
    SliceVal,
    SplitVal,
    Unsupported,
    as_bool,
    fresh_name,
    is_sym,
    lift,
    term,
    truth,
)

# ----------------------------------------------------------------------------------------------
# control-flow signals


class PyRaise(Exception):
    def __init__(self, exc):
        self.exc = exc


class _Return(Exception):
    def __init__(self, value):
        self.value = value


class _Break(Exception):
    pass


class _Continue(Exception):
    pass


class PathEnd(Exception):
    """The current path ends here without reaching a function exit (e.g. after a loop-preservation check)."""


class Infeasible(Exception):
    pass


class ContractStale(Exception):
    """The spec no longer matches the code shape (e.g. loop ordinal missing): undecided, not violated."""


class ExcVal(SVal):
    """A raised exception object."""

    def __init__(self, cls: str, args=(), line=None):
        self.cls, self.args, self.line = cls, tuple(args), line

    def py_isinstance(self, cx, c):
        return exc_is_subclass(self.cls, c)

    def py_truth(self, cx):
        return True

    def py_str(self, cx):
        return self.args[0] if self.args and isinstance(self.args[0], (str, SStr)) else SStr.fresh("excmsg")

    def __repr__(self):
        return f"ExcVal({self.cls})"


EXC_BASES = {
    "BaseException": None,
    "Exception": "BaseException",
    "ValueError": "Exception",
    "TypeError": "Exception",
    "KeyError": "LookupError",
    "IndexError": "LookupError",
    "LookupError": "Exception",
    "AssertionError": "Exception",
    "AttributeError": "Exception",
    "RuntimeError": "Exception",
    "NotImplementedError": "RuntimeError",
    "OSError": "Exception",
    "FileNotFoundError": "OSError",
    "FileExistsError": "OSError",
    "StopIteration": "Exception",
    "ValidationError": "ValueError",  # pydantic.ValidationError subclasses ValueError
    "UnsupportedOperationError": "AttributeError",
    "UnicodeDecodeError": "ValueError",
    "NameError": "Exception",
    "UnboundLocalError": "NameError",
    "JSONDecodeError": "ValueError",
    "UnsupportedOperation": "OSError",  # io.UnsupportedOperation (OSError and ValueError; single inheritance is enough here)
}


def exc_is_subclass(c, base):
    while c is not None:
        if c == base:
            return True
        c = EXC_BASES.get(c, "Exception" if c not in EXC_BASES else None)
        if c == "Exception" and base == "Exception":
            return True
    return False


class SClass(SVal):
    """A class object (repo class, exception class, builtin type)."""

    def __init__(self, name, sym_is=None):
        self.name = name
        self.sym_is = sym_is or {}  # name -> z3 Bool for symbolic dynamic classes ("is this exactly class X")

    def py_truth(self, cx):
        return True

    def py_eq(self, cx, o):
        return self.py_is(cx, o)

    def py_is(self, cx, o):
        if isinstance(o, SClass):
            if o.name in self.sym_is:
                return self.sym_is[o.name]
            if self.name in o.sym_is:
                return o.sym_is[self.name]
            return self.name == o.name
        return False

    def py_getattr(self, cx, name):
        return cx.lookup_class_attr(self, name)

    def __repr__(self):
        return f"SClass({self.name})"


class Closure(SVal):
    """A nested def / lambda together with its defining environment."""

    def __init__(self, node, env, modinfo, name="<lambda>"):
        self.node, self.env, self.modinfo, self.name = node, env, modinfo, name

    def py_truth(self, cx):
        return True


class RepoFunc(SVal):
    """A function/method of the repo (resolved to a FunctionDef) optionally bound to self/cls."""

    def __init__(self, modinfo, qual, node, bound=None, kind="function"):
        self.modinfo, self.qual, self.node, self.bound, self.kind = modinfo, qual, node, bound, kind

    def py_truth(self, cx):
        return True


class ModuleVal(SVal):
    """An imported repo module: attribute access resolves names inside it."""

    def __init__(self, modinfo):
        self.modinfo = modinfo

    def py_truth(self, cx):
        return True

    def py_getattr(self, cx, name):
        return cx.run.interp.resolve_name(cx, Frame(self.modinfo, "<module>", Env(None), spec=cx.run.spec), name)


class Builtin(SVal):
    def __init__(self, name, fn):
        self.name, self.fn = name, fn

    def py_truth(self, cx):
        return True


# ----------------------------------------------------------------------------------------------
# source model


class ModuleInfo:
    cache = {}

    def __init__(self, path):
        self.path = path
        self.src = open(path).read()
        self.tree = ast.parse(self.src)
        self.funcs = {}  # qualname -> FunctionDef
        self.classes = {}  # name -> ClassDef
        self.consts = {}  # module-level constant name -> python value (evaluated lazily)
        self._index(self.tree.body, "")
        self._const_nodes = {}
        self.imports = {}  # local name -> (absolute module file, original name)
        pkg_dir = os.path.dirname(str(path))
        for st in ast.walk(self.tree):
            if isinstance(st, ast.ImportFrom):
                base = None
                if st.level >= 1:
                    base = pkg_dir
                    for _ in range(st.level - 1):
                        base = os.path.dirname(base)
                    if st.module:
                        base = os.path.join(base, *st.module.split("."))
                elif st.module and st.module.startswith("metador_core"):
                    root = str(path).split("metador_core")[0]
                    base = os.path.join(root, *st.module.split("."))
                if base is None:
                    continue
                for al in st.names:
                    cand = [base + ".py", os.path.join(base, "__init__.py")]
                    sub = [os.path.join(base, al.name + ".py"), os.path.join(base, al.name, "__init__.py")]
                    tgt = next((c for c in cand if os.path.isfile(c)), None)
                    subt = next((c for c in sub if os.path.isfile(c)), None)
                    if subt is not None and (tgt is None or tgt.endswith("__init__.py")):
                        self.imports[al.asname or al.name] = (subt, None)  # a module
                    elif tgt is not None:
                        self.imports[al.asname or al.name] = (tgt, al.name)
        for st in self.tree.body:
            if isinstance(st, ast.Assign) and len(st.targets) == 1 and isinstance(st.targets[0], ast.Name):
                self._const_nodes[st.targets[0].id] = st.value
            elif isinstance(st, ast.AnnAssign) and isinstance(st.target, ast.Name) and st.value is not None:
                self._const_nodes[st.target.id] = st.value

    @classmethod
    def load(cls, path):
        path = str(path)
        if path not in cls.cache:
            cls.cache[path] = ModuleInfo(path)
        return cls.cache[path]

    def _index(self, body, prefix):
        for st in body:
            if isinstance(st, (ast.FunctionDef, ast.AsyncFunctionDef)):
                q = prefix + st.name
                if any(isinstance(d, ast.Name) and d.id == "overload" for d in st.decorator_list):
                    continue
                self.funcs[q] = st
                self._index(st.body, q + ".<locals>.")
            elif isinstance(st, ast.ClassDef):
                q = prefix + st.name
                self.classes[q] = st
                self._index(st.body, q + ".")
            elif isinstance(st, (ast.If, ast.Try, ast.With)):
                for sub in ("body", "orelse", "finalbody"):
                    self._index(getattr(st, sub, []) or [], prefix)

    def class_const(self, clsname, attr):
        c = self.classes.get(clsname)
        if c is None:
            return None
        for st in c.body:
            if isinstance(st, ast.Assign) and len(st.targets) == 1 and isinstance(st.targets[0], ast.Name) and st.targets[0].id == attr:
                return st.value
            if isinstance(st, ast.AnnAssign) and isinstance(st.target, ast.Name) and st.target.id == attr and st.value is not None:
                return st.value
        return None

    def class_bases(self, clsname):
        c = self.classes.get(clsname)
        if c is None:
            return []
        res = []
        for b in c.bases:
            if isinstance(b, ast.Name):
                res.append(b.id)
            elif isinstance(b, ast.Attribute):
                res.append(b.attr)
        return res

    def find_method(self, clsname, meth):
        """Resolve a method along the (single-file) base chain; returns (qual, node) or None."""
        seen = set()
        todo = [clsname]
        while todo:
            c = todo.pop(0)
            if c in seen:
                continue
            seen.add(c)
            q = f"{c}.{meth}"
            if q in self.funcs:
                return q, self.funcs[q]
            todo += self.class_bases(c)
        return None


def find_method_x(mi, clsname, meth, _seen=None):
    """Resolve a method along the base chain, following imported base classes into their modules.
    Returns (modinfo, qual, node) or None."""
    seen = _seen if _seen is not None else set()
    key = (mi.path, clsname)
    if key in seen:
        return None
    seen.add(key)
    if clsname in mi.classes:
        q = f"{clsname}.{meth}"
        if q in mi.funcs:
            return mi, q, mi.funcs[q]
        for b in mi.class_bases(clsname):
            r = find_method_x(mi, b, meth, seen)
            if r is not None:
                return r
        return None
    if clsname in mi.imports:
        tfile, orig = mi.imports[clsname]
        if orig is not None:
            return find_method_x(ModuleInfo.load(tfile), orig, meth, seen)
    return None


def class_const_x(mi, clsname, attr, _seen=None):
    seen = _seen if _seen is not None else set()
    key = (mi.path, clsname)
    if key in seen:
        return None
    seen.add(key)
    if clsname in mi.classes:
        cn = mi.class_const(clsname, attr)
        if cn is not None:
            return mi, clsname, cn
        for b in mi.class_bases(clsname):
            r = class_const_x(mi, b, attr, seen)
            if r is not None:
                return r
        return None
    if clsname in mi.imports:
        tfile, orig = mi.imports[clsname]
        if orig is not None:
            return class_const_x(ModuleInfo.load(tfile), orig, attr, seen)
    return None


def func_kind(node):
    for d in node.decorator_list:
        n = d.id if isinstance(d, ast.Name) else (d.attr if isinstance(d, ast.Attribute) else None)
        if n in ("classmethod", "staticmethod", "property"):
            return n
    return "function"


# ----------------------------------------------------------------------------------------------
# obligations


class Obl:
    def __init__(self, name, kind, pc, goal, line, clause="", fn=""):
        self.name, self.kind, self.pc, self.goal, self.line, self.clause, self.fn = name, kind, list(pc), goal, line, clause, fn


# ----------------------------------------------------------------------------------------------
# per-path context


class Cx:
    def __init__(self, run, decisions):
        self.run = run  # FunctionRun
        self.decisions = list(decisions)
        self.dpos = 0
        self.pc = []
        self.axioms = run.axioms  # global background axioms (shared list)
        self.obls = []
        self.heap = {}
        self.writes = []
        self.fx = []  # ghost effect log: list of tuples
        self.ghost = {}
        self.depth = 0
        self.cur_line = None

    # --- forks
    def feasible(self, extra):
        """Is pc ∧ extra possibly satisfiable?  Only a definite `unsat` prunes (unknown/timeouts keep the path).
        Stage 1: quantifier-free part only (sound: fewer hypotheses); stage 2: everything, short budget."""
        s = self.run.feas_solver
        for stage in (1, 2):
            s.push()
            try:
                for a in self.pc:
                    if stage == 1 and _has_quantifier(a):
                        continue
                    s.add(a)
                s.add(extra)
                s.set("timeout", 400 if stage == 1 else FEAS_TIMEOUT_MS)
                r = s.check()
            finally:
                s.pop()
            if r == z3.unsat:
                return False
            if stage == 1 and r == z3.sat and not any(_has_quantifier(a) for a in self.pc):
                return True
        return True

    def decide(self, cond) -> bool:
        if isinstance(cond, bool):
            return cond
        if isinstance(cond, SBool):
            cond = cond.t
        c = z3.simplify(cond)
        if z3.is_true(c):
            return True
        if z3.is_false(c):
            return False
        if getattr(self, "pure_depth", 0):
            raise Unsupported("fork inside a pure (quantified) context")
        if self.dpos < len(self.decisions):
            d = self.decisions[self.dpos]
        else:
            ft = self.feasible(c)
            ff = self.feasible(z3.Not(c))
            if ft and ff:
                d = True
                self.run.pending.append(self.decisions[: self.dpos] + [False])
            elif ft:
                d = True
            elif ff:
                d = False
            else:
                raise Infeasible()
            self.decisions.append(d)
        self.dpos += 1
        self.pc.append(c if d else z3.Not(c))
        return d

    def decide_or_fail(self, cond, exc, msg=""):
        """`cond` must hold or `exc` is raised. In element mode (a generic element of a comprehension / sort key)
        the failure condition is collected instead of forking."""
        el = getattr(self, "elem", None)
        if el is not None:
            c = z3.simplify(as_bool(self, cond))
            if z3.is_true(c):
                return
            el.fails.append((exc, z3.Not(c)))
            return
        if not self.decide(cond):
            self.py_raise(exc, msg)

    def choose(self, n: int) -> int:
        """Structural n-way fork with no path-condition literal."""
        if self.dpos < len(self.decisions):
            d = self.decisions[self.dpos]
        else:
            d = 0
            for alt in range(1, n):
                self.run.pending.append(self.decisions[: self.dpos] + [alt])
            self.decisions.append(d)
        self.dpos += 1
        return d

    def assume(self, cond):
        if isinstance(cond, bool):
            if not cond:
                raise Infeasible()
            return
        el = getattr(self, "elem", None)
        if el is not None:
            el.axioms.append(as_bool(self, cond))
            return
        if getattr(self, "pure_depth", 0):
            raise Unsupported("assumption inside a pure (quantified) context")
        self.pc.append(as_bool(self, cond))

    def oblige(self, name, kind, goal, clause="", line=None):
        if isinstance(goal, bool):
            goal = z3.BoolVal(goal)
        self.obls.append(Obl(name, kind, self.pc, as_bool(self, goal), line if line is not None else self.cur_line, clause, self.run.spec.qual))

    def py_raise(self, clsname, msg=""):
        raise PyRaise(ExcVal(clsname, (msg,), self.cur_line))

    def scope_limit(self, name, clause):
        """The engine does not read what follows on this path: that the path cannot be taken becomes an obligation
        (undischarged = the function is undecided, never silently skipped); the path ends here."""
        self.oblige(f"engine-scope:{name}", "scope", z3.BoolVal(False), clause=clause)
        raise PathEnd()

    # --- heap
    def heap_array(self, field, ft: T):
        if field not in self.heap:
            self.heap[field] = z3.Const(f"H0_{field}", z3.ArraySort(z3.DeclareSort("Ref"), ft.sort()))
        return self.heap[field]

    def note_write(self, loc, obj):
        self.writes.append((loc, obj, self.cur_line))

    def effect(self, *rec):
        self.fx.append(tuple(rec) + (self.cur_line,))

    # --- object protocol hooks (delegated to the interpreter)
    def lookup_attr(self, obj, name):
        return self.run.interp.lookup_attr(self, obj, name)

    def lookup_class_attr(self, clsobj, name):
        return self.run.interp.lookup_class_attr(self, clsobj, name)

    def object_eq(self, a, b):
        return self.run.interp.object_eq(self, a, b)

    def object_hash(self, a):
        return self.run.interp.object_hash(self, a)


# ----------------------------------------------------------------------------------------------
# the interpreter


class ElemCtx:
    """Evaluation of an expression on a generic element (bound index variable): failures and facts are collected."""

    def __init__(self, index):
        self.index = index
        self.fails = []  # (exception class, condition under which the element evaluation raises)
        self.axioms = []  # facts about values created for this element
        self.effects = []


class Frame:
    def __init__(self, modinfo, qual, env, spec=None, cls=None):
        self.modinfo, self.qual, self.env, self.spec, self.cls = modinfo, qual, env, spec, cls
        self.loop_ordinal = 0
        self.comp_ordinal = 0


MAX_INLINE_DEPTH = 6
FEAS_TIMEOUT_MS = 600
_qcache = {}


def _has_quantifier(t):
    k = t.get_id()
    if k in _qcache:
        return _qcache[k]
    res = False
    todo = [t]
    seen = set()
    while todo:
        x = todo.pop()
        i = x.get_id()
        if i in seen:
            continue
        seen.add(i)
        if z3.is_quantifier(x):
            res = True
            break
        todo.extend(x.children())
    _qcache[k] = res
    return res


class Interp:
    def __init__(self, registry):
        self.registry = registry  # SpecRegistry
        self.builtins = make_builtins(self)

    # ---- name resolution ----------------------------------------------------------------------
    def resolve_name(self, cx, fr: Frame, name):
        env = fr.env
        while env is not None:
            if name in env.vars:
                return env.vars[name]
            env = env.parent
        sp = fr.spec
        if sp is not None and name in sp.bindings:
            b = sp.bindings[name]
            return b
        g = self.registry.global_binding(fr.modinfo, name)
        if g is not None:
            return g
        mi = fr.modinfo
        if name in mi.funcs:
            return RepoFunc(mi, name, mi.funcs[name])
        if name in mi.classes:
            return SClass(name)
        if name in mi._const_nodes:
            if name not in mi.consts:
                f2 = Frame(mi, "<module>", Env(None), spec=fr.spec)
                mi.consts[name] = self.eval(cx, f2, mi._const_nodes[name])
            return mi.consts[name]
        if name in self.builtins:
            return self.builtins[name]
        if name in EXC_BASES:
            return SClass(name)
        if name in mi.imports:
            tfile, orig = mi.imports[name]
            tmi = ModuleInfo.load(tfile)
            if orig is None:
                return ModuleVal(tmi)
            return self.resolve_name(cx, Frame(tmi, "<module>", Env(None), spec=fr.spec), orig)
        fnode = mi.funcs.get(fr.qual)
        if fnode is not None and name in assigned_names(fnode.body):
            cx.py_raise("UnboundLocalError", f"local variable '{name}' referenced before assignment")
        raise Unsupported(f"unresolved name '{name}' in {fr.qual}")

    # ---- attribute lookup on objects of repo classes ------------------------------------------
    def class_modinfo(self, clsname):
        return self.registry.class_home(clsname)

    def lookup_attr(self, cx, obj, name):
        clsname = obj.cls
        sp = self.registry.attr_binding(clsname, name)
        if sp is not None:
            return sp(cx, obj)
        mb = self.registry.method_binding(clsname, name)
        if mb is not None:
            return lambda cx2, *a, **k: mb(cx2, obj, *a, **k)
        home = self.class_modinfo(clsname)
        if home is not None:
            mi, real_cls = home
            r = find_method_x(mi, real_cls, name)
            if r is not None:
                mi2, q, node = r
                kind = func_kind(node)
                if kind == "property":
                    return self.call_repo(cx, RepoFunc(mi2, q, node, bound=obj, kind="property"), [], {})
                if kind == "classmethod":
                    return RepoFunc(mi2, q, node, bound=SClass(clsname), kind=kind)
                if kind == "staticmethod":
                    return RepoFunc(mi2, q, node, bound=None, kind=kind)
                return RepoFunc(mi2, q, node, bound=obj, kind="method")
            # class-level constants
            rc = class_const_x(mi, real_cls, name)
            if rc is not None:
                mi2, c, cn = rc
                return self.eval(cx, Frame(mi2, c, Env(None)), cn)
        raise Unsupported(f"attribute {clsname}.{name} (no field, binding, method or constant)")

    def lookup_class_attr(self, cx, clsobj, name):
        sp = self.registry.attr_binding(clsobj.name, "cls:" + name)
        if sp is not None:
            return sp(cx, clsobj)
        home = self.class_modinfo(clsobj.name)
        if home is not None:
            mi, real_cls = home
            r = find_method_x(mi, real_cls, name)
            if r is not None:
                mi2, q, node = r
                kind = func_kind(node)
                if kind == "classmethod":
                    return RepoFunc(mi2, q, node, bound=clsobj, kind=kind)
                return RepoFunc(mi2, q, node, bound=None, kind="unbound" if kind == "function" else kind)
            rc = class_const_x(mi, real_cls, name)
            if rc is not None:
                mi2, c, cn = rc
                return self.eval(cx, Frame(mi2, c, Env(None)), cn)
        if name == "__name__":
            return clsobj.name
        raise Unsupported(f"class attribute {clsobj.name}.{name}")

    def object_eq(self, cx, a, b):
        if b is None:
            return False
        home = self.class_modinfo(a.cls)
        if home is not None:
            mi, real_cls = home
            r = find_method_x(mi, real_cls, "__eq__")
            if r is not None:
                mi2, q, node = r
                return self.call_repo(cx, RepoFunc(mi2, q, node, bound=a, kind="method"), [b], {})
        if isinstance(a, SRef) and isinstance(b, SRef):
            return a.t == b.t
        return a is b

    def object_hash(self, cx, a):
        home = self.class_modinfo(a.cls)
        if home is not None:
            mi, real_cls = home
            r = find_method_x(mi, real_cls, "__hash__")
            if r is not None:
                mi2, q, node = r
                return self.call_repo(cx, RepoFunc(mi2, q, node, bound=a, kind="method"), [], {})
        raise Unsupported(f"hash of {a.cls}")

    # ---- calls -------------------------------------------------------------------------------
    def call_value(self, cx, fr, f, args, kwargs):
        if isinstance(f, Builtin):
            return f.fn(cx, fr, *args, **kwargs)
        if isinstance(f, BoundMethod):
            return f.recv.py_call_method(cx, f.name, args, kwargs)
        if isinstance(f, RepoFunc):
            return self.call_repo(cx, f, args, kwargs)
        if isinstance(f, Closure):
            return self.call_closure(cx, f, args, kwargs)
        if isinstance(f, SClass):
            ctor = self.registry.ctor(f.name)
            if ctor is not None:
                return ctor(cx, *args, **kwargs)
            if f.name in EXC_BASES or f.name.endswith("Error"):
                return ExcVal(f.name, args, cx.cur_line)
            raise Unsupported(f"constructor of {f.name}")
        if callable(f) and not isinstance(f, SVal):
            return f(cx, *args, **kwargs)
        if isinstance(f, SVal) and hasattr(f, "py_call"):
            return f.py_call(cx, *args, **kwargs)
        raise Unsupported(f"call of {f!r}")

    def call_repo(self, cx, f: RepoFunc, args, kwargs):
        args = list(args)
        if f.bound is not None and f.kind in ("method", "property", "classmethod"):
            args = [f.bound] + args
        spec = self.registry.lookup(f.modinfo, f.qual)
        # the function currently being verified must not use its own contract except for recursion
        if spec is not None and not spec.inline_always:
            if spec is cx.run.spec and cx.depth == 0 and not spec.recursive:
                pass
            return self.apply_contract(cx, spec, f, args, kwargs)
        if cx.depth >= MAX_INLINE_DEPTH:
            raise Unsupported(f"inline depth exceeded at {f.qual}")
        if spec is None and not self.registry.may_inline(cx.run.spec, f.qual):
            raise Unsupported(f"call to {f.modinfo.path.split('metador_core/')[-1]}:{f.qual} has no contract and is not marked inline")
        return self.inline_call(cx, f, args, kwargs, spec)

    def bind_params(self, cx, fr, node, args, kwargs):
        a = node.args
        params = [p.arg for p in a.posonlyargs + a.args]
        env = fr.env
        defaults = a.defaults
        nd = len(defaults)
        kwargs = dict(kwargs)
        for i, p in enumerate(params):
            if i < len(args):
                env.vars[p] = args[i]
            elif p in kwargs:
                env.vars[p] = kwargs.pop(p)
            else:
                di = i - (len(params) - nd)
                if di < 0:
                    raise Unsupported(f"missing argument {p} for {fr.qual}")
                env.vars[p] = self.eval(cx, fr, defaults[di])
        if len(args) > len(params):
            if a.vararg is None:
                raise Unsupported(f"too many positional args for {fr.qual}")
            env.vars[a.vararg.arg] = tuple(args[len(params) :])
        elif a.vararg is not None:
            env.vars[a.vararg.arg] = ()
        for kw, d in zip(a.kwonlyargs, a.kw_defaults):
            if kw.arg in kwargs:
                env.vars[kw.arg] = kwargs.pop(kw.arg)
            elif d is not None:
                env.vars[kw.arg] = self.eval(cx, fr, d)
            else:
                raise Unsupported(f"missing kw-only {kw.arg}")
        if a.kwarg is not None:
            env.vars[a.kwarg.arg] = KwDict(kwargs)
        elif kwargs:
            raise Unsupported(f"unexpected kwargs {list(kwargs)} for {fr.qual}")

    def inline_call(self, cx, f: RepoFunc, args, kwargs, spec=None):
        cls = f.qual.rsplit(".", 1)[0] if "." in f.qual and "<locals>" not in f.qual.rsplit(".", 1)[0] else None
        fr = Frame(f.modinfo, f.qual, Env(None), spec=spec or cx.run.spec, cls=cls)
        self.bind_params(cx, fr, f.node, args, kwargs)
        cx.depth += 1
        try:
            self.exec_block(cx, fr, f.node.body)
        except _Return as r:
            return r.value
        finally:
            cx.depth -= 1
        return None

    def call_closure(self, cx, c: Closure, args, kwargs):
        fr = Frame(c.modinfo, c.name, Env(c.env), spec=cx.run.spec)
        node = c.node
        if isinstance(node, ast.Lambda):
            self.bind_params(cx, fr, node, args, kwargs)
            return self.eval(cx, fr, node.body)
        self.bind_params(cx, fr, node, args, kwargs)
        cx.depth += 1
        try:
            self.exec_block(cx, fr, node.body)
        except _Return as r:
            return r.value
        finally:
            cx.depth -= 1
        return None

    def apply_contract(self, cx, spec, f, args, kwargs):
        """Modular call: the caller sees only the callee's contract."""
        a = spec.bind_call(self, cx, f, args, kwargs)
        return spec.apply(cx, a)

    # ---- statements ----------------------------------------------------------------------------
    def exec_block(self, cx, fr, stmts):
        for st in stmts:
            self.exec_stmt(cx, fr, st)

    def exec_stmt(self, cx, fr, st):
        cx.cur_line = getattr(st, "lineno", cx.cur_line)
        m = getattr(self, "st_" + type(st).__name__, None)
        if m is None:
            raise Unsupported(f"statement {type(st).__name__} at line {st.lineno}")
        return m(cx, fr, st)

    def st_Expr(self, cx, fr, st):
        if isinstance(st.value, ast.Constant):
            return  # docstring
        self.eval(cx, fr, st.value)

    def st_Pass(self, cx, fr, st):
        pass

    def st_Return(self, cx, fr, st):
        raise _Return(self.eval(cx, fr, st.value) if st.value is not None else None)

    def st_Assign(self, cx, fr, st):
        v = self.eval(cx, fr, st.value)
        if isinstance(v, (dict, list)) and not isinstance(v, SVal) and not v and len(st.targets) == 1 and isinstance(st.targets[0], ast.Name) and fr.spec is not None and fr.qual == fr.spec.qual:
            hook = getattr(fr.spec, "empty_container", None)
            if hook is not None:
                hv = hook(cx, st.targets[0].id, None)  # the spec's model of this (empty) container
                if hv is not None:
                    v = hv
        elif isinstance(v, (dict, list)) and not isinstance(v, SVal) and v and len(st.targets) == 1 and isinstance(st.targets[0], ast.Name) and fr.spec is not None and fr.qual == fr.spec.qual:
            hook = getattr(fr.spec, "container_value", None)  # the spec's model of a freshly built, non-empty list / dict literal
            if hook is not None:
                hv = hook(cx, st.targets[0].id, v)
                if hv is not None:
                    v = hv
        for t in st.targets:
            self.assign(cx, fr, t, v)

    def st_AnnAssign(self, cx, fr, st):
        if st.value is not None:
            v = self.eval(cx, fr, st.value)
            if isinstance(v, (dict, list)) and not isinstance(v, SVal) and not v:
                tv = typed_empty_from_annotation(st.annotation) if isinstance(v, dict) else None
                hook = getattr(fr.spec, "empty_container", None)
                if hook is not None and isinstance(st.target, ast.Name):
                    hv = hook(cx, st.target.id, ast.unparse(st.annotation))  # the spec's model of this (empty) container
                    if hv is not None:
                        tv = hv
                if tv is not None:
                    v = tv
            elif isinstance(st.target, ast.Name) and getattr(fr.spec, "annotated_value", None) is not None and fr.qual == fr.spec.qual:
                hv = fr.spec.annotated_value(cx, st.target.id, ast.unparse(st.annotation), v)  # the spec's model of this freshly built container
                if hv is not None:
                    v = hv
            self.assign(cx, fr, st.target, v)

    def st_AugAssign(self, cx, fr, st):
        cur = self.eval(cx, fr, _load(st.target))
        v = self.binop(cx, st.op, cur, self.eval(cx, fr, st.value), inplace=True)
        self.assign(cx, fr, st.target, v)

    def assign(self, cx, fr, target, v):
        if isinstance(target, ast.Name):
            fr.env.set(target.id, v)
        elif isinstance(target, (ast.Tuple, ast.List)):
            items = self.iter_concrete(cx, v)
            if items is None and isinstance(v, SplitVal) and 1 <= len(target.elts) <= 3:
                # a, b = s.split(sep): ValueError unless there are exactly that many parts
                cx.decide_or_fail(v.py_len(cx).t == len(target.elts), "ValueError", "not enough / too many values to unpack")
                items = [v.py_getitem(cx, i) for i in range(len(target.elts))]
            if items is None or len(items) != len(target.elts):
                raise Unsupported("tuple unpacking of symbolic-length value")
            for t, x in zip(target.elts, items):
                self.assign(cx, fr, t, x)
        elif isinstance(target, ast.Attribute):
            obj = self.eval(cx, fr, target.value)
            if isinstance(obj, SMaybe):
                obj = obj.force(cx, "AttributeError")
            if not hasattr(obj, "py_setattr"):
                raise Unsupported(f"attribute assignment on {obj!r}")
            obj.py_setattr(cx, target.attr, v)
        elif isinstance(target, ast.Subscript):
            obj = self.eval(cx, fr, target.value)
            idx = self.eval_index(cx, fr, target.slice)
            if isinstance(obj, (dict, list)) and not is_sym(idx):
                obj[idx] = v
                return
            if isinstance(obj, dict):
                raise Unsupported("concrete dict with symbolic key")
            if not hasattr(obj, "py_setitem"):
                raise Unsupported(f"subscript assignment on {obj!r}")
            obj.py_setitem(cx, idx, v)
        else:
            raise Unsupported(f"assignment target {type(target).__name__}")

    def st_Delete(self, cx, fr, st):
        for t in st.targets:
            if isinstance(t, ast.Subscript):
                obj = self.eval(cx, fr, t.value)
                idx = self.eval_index(cx, fr, t.slice)
                if isinstance(obj, dict) and not is_sym(idx):
                    if idx not in obj:
                        cx.py_raise("KeyError", "del missing")
                    del obj[idx]
                    continue
                if not hasattr(obj, "py_delitem"):
                    if isinstance(obj, (SObj, SRef)):
                        mb = self.registry.method_binding(obj.cls, "__delitem__")
                        if mb is not None:
                            mb(cx, obj, idx)
                            continue
                        f = self.lookup_attr(cx, obj, "__delitem__")
                        self.call_value(cx, fr, f, [idx], {})
                        continue
                    raise Unsupported(f"del on {obj!r}")
                obj.py_delitem(cx, idx)
            else:
                raise Unsupported("del of non-subscript")

    def st_If(self, cx, fr, st):
        c = truth(cx, self.eval(cx, fr, st.test))
        if cx.decide(c):
            self.exec_block(cx, fr, st.body)
        else:
            self.exec_block(cx, fr, st.orelse)

    def st_Assert(self, cx, fr, st):
        c = truth(cx, self.eval(cx, fr, st.test))
        if not cx.decide(c):
            cx.py_raise("AssertionError", "assert")

    def st_Raise(self, cx, fr, st):
        if st.exc is None:
            if fr.env.lookup("__active_exc__") is not None:
                raise PyRaise(fr.env.lookup("__active_exc__"))
            raise Unsupported("bare raise outside handler")
        e = self.eval(cx, fr, st.exc)
        if isinstance(e, SMaybe):
            e = e.force(cx, "TypeError")  # `raise None`: exceptions must derive from BaseException
        if isinstance(e, SClass):
            e = ExcVal(e.name, (), st.lineno)
        if not isinstance(e, ExcVal):
            raise Unsupported(f"raise of {e!r}")
        e.line = st.lineno
        raise PyRaise(e)

    def st_Try(self, cx, fr, st):
        try:
            try:
                self.exec_block(cx, fr, st.body)
            except PyRaise as pr:
                for h in st.handlers:
                    if self.handler_matches(cx, fr, h, pr.exc):
                        if h.name:
                            fr.env.set(h.name, pr.exc)
                        fr.env.set("__active_exc__", pr.exc)
                        self.exec_block(cx, fr, h.body)
                        break
                else:
                    raise
            else:
                self.exec_block(cx, fr, st.orelse)
        finally:
            if st.finalbody:
                self.exec_block(cx, fr, st.finalbody)

    def handler_matches(self, cx, fr, h, exc):
        if h.type is None:
            return True
        t = self.eval(cx, fr, h.type)
        ts = t if isinstance(t, tuple) else (t,)
        for c in ts:
            if isinstance(c, SClass) and exc_is_subclass(exc.cls, c.name):
                return True
        return False

    def st_With(self, cx, fr, st):
        mgrs = []
        for it in st.items:
            mgr = self.eval(cx, fr, it.context_expr)
            ent = mgr
            if hasattr(mgr, "meth___enter__"):
                ent = mgr.meth___enter__(cx)
            mgrs.append(mgr)
            if it.optional_vars is not None:
                self.assign(cx, fr, it.optional_vars, ent)
        try:
            self.exec_block(cx, fr, st.body)
        finally:
            # __exit__ runs on normal and on exceptional exit (PathEnd/Infeasible are not python exits)
            import sys as _sys

            et = _sys.exc_info()[0]
            if et is None or et in (PyRaise, _Return, _Break, _Continue):
                for mgr in reversed(mgrs):
                    if hasattr(mgr, "meth___exit__"):
                        mgr.meth___exit__(cx)

    def st_FunctionDef(self, cx, fr, st):
        fr.env.set(st.name, Closure(st, fr.env, fr.modinfo, name=f"{fr.qual}.<locals>.{st.name}"))

    def st_Break(self, cx, fr, st):
        raise _Break()

    def st_Continue(self, cx, fr, st):
        raise _Continue()

    def st_Global(self, cx, fr, st):
        pass

    def st_Import(self, cx, fr, st):
        pass

    def st_ImportFrom(self, cx, fr, st):
        pass

    # ---- loops -----------------------------------------------------------------------------------
    def loop_spec(self, fr, st):
        k = fr.loop_ordinal
        fr.loop_ordinal += 1
        sp = fr.spec
        if sp is None or fr.qual != sp.qual and not fr.qual.startswith(sp.qual + ".<locals>."):
            return k, None
        byiter = None
        if hasattr(st, "iter"):
            try:
                byiter = sp.loops.get(("iter", ast.unparse(st.iter)))
            except Exception:  # noqa
                byiter = None
        return k, byiter or sp.loops.get((fr.qual, k)) or (sp.loops.get(k) if fr.qual == sp.qual else None)

    def st_For(self, cx, fr, st):
        it = self.eval(cx, fr, st.iter)
        k, lsp = self.loop_spec(fr, st)
        items = self.iter_concrete(cx, it)
        if items is not None and lsp is None:
            # concrete iteration: unroll
            saved = fr.loop_ordinal
            broke = False
            for x in items:
                fr.loop_ordinal = saved
                self.assign(cx, fr, st.target, x)
                try:
                    self.exec_block(cx, fr, st.body)
                except _Break:
                    broke = True
                    break
                except _Continue:
                    continue
            if not broke:
                self.exec_block(cx, fr, st.orelse)
            return
        if lsp is None:
            raise ContractStale(f"loop #{k} in {fr.qual} (line {st.lineno}) iterates a symbolic collection and has no invariant")
        schema = it.py_iter_schema(cx) if hasattr(it, "py_iter_schema") else None
        if schema is None and isinstance(it, SSeq):
            schema = SeqIter(it.snapshot())  # the list object being iterated (not re-read through its container)
        if schema is None:
            raise Unsupported(f"iteration over {it!r}")
        self.cut_loop(cx, fr, st, k, lsp, schema)

    def st_While(self, cx, fr, st):
        k, lsp = self.loop_spec(fr, st)
        if lsp is None:
            raise ContractStale(f"while loop #{k} in {fr.qual} (line {st.lineno}) has no invariant")
        self.cut_loop(cx, fr, st, k, lsp, None)

    def cut_loop(self, cx, fr, st, k, lsp, schema):
        """Invariant-based loop cutting: init, then either (arbitrary iteration; preserve) or (exit; continue)."""
        tag = f"loop{k}"
        line = st.lineno
        itst = IterState(schema)
        itst.init(cx)
        for nm, g in lsp.invariant(cx, fr.env, itst):
            cx.oblige(f"{tag}.inv-init:{nm}", "loop-init", g, line=line)
        # havoc
        mods = lsp.modifies if lsp.modifies is not None else sorted(assigned_names(st.body) | ({n for n in ast.walk(st.target) if False} if False else set()))
        tnames = {n.id for n in ast.walk(st.target) if isinstance(n, ast.Name)} if hasattr(st, "target") else set()
        first = getattr(lsp, "bound_by_first_iteration", None) or {}
        if first:
            if not isinstance(st, ast.While):
                raise Unsupported("bound_by_first_iteration on a for loop")
            c0 = truth(cx, self.eval(cx, fr, st.test))
            cx.oblige(f"{tag}.enters-at-least-once", "loop-init", as_bool(cx, c0), line=line, clause="the loop body runs at least once, so the locals it assigns are bound afterwards")
        for nm in mods:
            if nm in tnames:
                continue
            cur = fr.env.lookup(nm)
            if cur is None and not fr.env.has(nm) and nm in first:
                fr.env.set(nm, first[nm](cx))
                continue
            if cur is None and not fr.env.has(nm):
                continue
            fr.env.set(nm, havoc_value(cx, cur, nm))
        for nm in lsp.havoc_inplace:
            obj = lsp.resolve(cx, fr.env, nm)
            obj.havoc_inplace(cx, nm.replace(".", "_"))
        for field in lsp.havoc_heap:
            cx.heap.pop(field, None)
            ft = lsp.heap_types[field]
            cx.heap[field] = z3.Const(fresh_name(f"H_{field}"), z3.ArraySort(z3.DeclareSort("Ref"), ft.sort()))
        itst.havoc(cx)
        if getattr(lsp, "on_havoc", None) is not None:
            lsp.on_havoc(cx)
        for nm, g in lsp.invariant(cx, fr.env, itst):
            cx.assume(g)
        mode = cx.choose(2)
        if mode == 0:  # one arbitrary iteration
            if schema is not None:
                cx.assume(itst.has_next(cx))
                x = itst.next_elem(cx)
                self.assign(cx, fr, st.target, x)
            else:
                c = truth(cx, self.eval(cx, fr, st.test))
                if isinstance(c, bool):
                    if not c:
                        raise PathEnd()
                else:
                    cx.assume(c)
            cx.loop_depth = getattr(cx, "loop_depth", 0) + 1
            try:
                self.exec_block(cx, fr, st.body)
            except _Break:
                return  # leaves the loop with the current state (orelse skipped)
            except _Continue:
                pass
            finally:
                cx.loop_depth -= 1
            itst.advance(cx)
            for nm, g in lsp.invariant(cx, fr.env, itst):
                cx.oblige(f"{tag}.inv-preserved:{nm}", "loop-preserve", g, line=line)
            raise PathEnd()
        else:  # exit
            if schema is not None:
                cx.assume(z3.Not(as_bool(cx, itst.has_next(cx))))
            else:
                c = truth(cx, self.eval(cx, fr, st.test))
                if isinstance(c, bool):
                    if c:
                        raise PathEnd()  # `while True` only leaves through break
                else:
                    cx.assume(z3.Not(c))
            self.exec_block(cx, fr, st.orelse)

    def iter_concrete(self, cx, v):
        """Return a python list of elements if `v` is iterable with concrete length, else None."""
        if isinstance(v, (list, tuple)):
            return list(v)
        if isinstance(v, dict):
            return list(v.keys())
        if isinstance(v, (set, frozenset)):
            return sorted(v, key=repr)
        if isinstance(v, STuple):
            return list(v.items)
        if isinstance(v, SRange):
            return v.concrete_list()
        if isinstance(v, KwDict):
            return list(v.d.keys())
        if isinstance(v, ConcreteIter):
            return list(v.items)
        if isinstance(v, str):
            return list(v)
        return None

    # ---- expressions ----------------------------------------------------------------------------
    def eval(self, cx, fr, e):
        m = getattr(self, "ex_" + type(e).__name__, None)
        if m is None:
            raise Unsupported(f"expression {type(e).__name__} at line {getattr(e, 'lineno', '?')}")
        return m(cx, fr, e)

    def ex_Constant(self, cx, fr, e):
        if isinstance(e.value, bytes):
            return BytesLit(e.value)
        return e.value

    def ex_Name(self, cx, fr, e):
        return self.resolve_name(cx, fr, e.id)

    def ex_Yield(self, cx, fr, e):
        """`yield x` in the function under contract: the yielded values are collected in order (cx.yielded) for the
        postcondition. Generators as callees are not read (they need a contract of their own)."""
        if fr.spec is None or fr.qual != fr.spec.qual:
            raise Unsupported("yield outside the function under contract")
        v = self.eval(cx, fr, e.value) if e.value is not None else None
        if getattr(cx, "loop_depth", 0) > 0:
            # inside a loop cut by an invariant the yields are not a finite list: the spec keeps its own ghost record
            hook = getattr(fr.spec, "on_yield", None)
            if hook is None:
                raise Unsupported("yield inside a loop (the spec has no on_yield)")
            hook(cx, v)
            return None
        if not hasattr(cx, "yielded"):
            cx.yielded = []
        cx.yielded.append(("one", v))
        return None

    def ex_YieldFrom(self, cx, fr, e):
        if fr.spec is None or fr.qual != fr.spec.qual:
            raise Unsupported("yield from outside the function under contract")
        if not hasattr(cx, "yielded"):
            cx.yielded = []
        cx.yielded.append(("from", self.eval(cx, fr, e.value)))
        return None

    def ex_NamedExpr(self, cx, fr, e):
        v = self.eval(cx, fr, e.value)
        self.assign(cx, fr, e.target, v)
        return v

    def eval_elts(self, cx, fr, elts):
        out = []
        for x in elts:
            if isinstance(x, ast.Starred):
                items = self.iter_concrete(cx, self.eval(cx, fr, x.value))
                if items is None:
                    raise Unsupported("unpacking (*) of a symbolic collection in a display")
                out.extend(items)
            else:
                out.append(self.eval(cx, fr, x))
        return out

    def ex_Tuple(self, cx, fr, e):
        return tuple(self.eval_elts(cx, fr, e.elts))

    def ex_List(self, cx, fr, e):
        return self.eval_elts(cx, fr, e.elts)

    def ex_Set(self, cx, fr, e):
        vals = [self.eval(cx, fr, x) for x in e.elts]
        if any(is_sym(v) for v in vals):
            return tuple(vals)  # small literal set with symbolic elements: kept as a tuple, converted where a set sort is known
        return set(vals)

    def ex_Dict(self, cx, fr, e):
        d = {}
        for k, v in zip(e.keys, e.values):
            if k is None:
                sub = self.eval(cx, fr, v)
                if isinstance(sub, KwDict):
                    sub = sub.d
                if not isinstance(sub, dict):
                    raise Unsupported("dict unpacking of a symbolic dict")
                d.update(sub)
                continue
            kk = self.eval(cx, fr, k)
            if is_sym(kk) and not getattr(kk, "concrete_key", False):
                raise Unsupported("dict display with symbolic key")
            d[kk] = self.eval(cx, fr, v)
        return d

    def ex_JoinedStr(self, cx, fr, e):
        parts = []
        for p in e.values:
            if isinstance(p, ast.Constant):
                parts.append(p.value)
            else:
                v = self.eval(cx, fr, p.value)
                parts.append(self.to_str(cx, v))
        if all(isinstance(p, str) for p in parts):
            return "".join(parts)
        ts = [term(p) for p in parts]
        for p_, t_ in zip(parts, ts):
            if not z3.is_string(t_):
                raise Unsupported(f"f-string part is not a string: {p_!r}")
        return SStr(z3.Concat(*ts) if len(ts) > 1 else ts[0])

    def to_str(self, cx, v):
        """str(v) for f-strings: exact for str/int>=0/concretes, an opaque fresh string otherwise (messages only)."""
        if isinstance(v, (str, SStr)):
            return v
        if isinstance(v, (int, bool)) or v is None:
            return str(v)
        if isinstance(v, SInt):
            return SStr(z3.If(v.t >= 0, z3.IntToStr(v.t), z3.Concat(z3.StringVal("-"), z3.IntToStr(-v.t))))
        if hasattr(v, "py_str"):
            return v.py_str(cx)
        return SStr(z3.Function("str_of_" + type(v).__name__, z3.IntSort(), z3.StringSort())(z3.IntVal(id(v) % 1000003)))

    def ex_Attribute(self, cx, fr, e):
        obj = self.eval(cx, fr, e.value)
        return V.v_getattr(cx, obj, e.attr) if not isinstance(obj, (list, dict, set, KwDict, ConcreteIter)) else self.concrete_attr(cx, obj, e.attr)

    def concrete_attr(self, cx, obj, name):
        return ConcreteBound(obj, name)

    def eval_index(self, cx, fr, s):
        if isinstance(s, ast.Slice):
            return SliceVal(
                self.eval(cx, fr, s.lower) if s.lower else None,
                self.eval(cx, fr, s.upper) if s.upper else None,
                self.eval(cx, fr, s.step) if s.step else None,
            )
        return self.eval(cx, fr, s)

    def ex_Subscript(self, cx, fr, e):
        obj = self.eval(cx, fr, e.value)
        idx = self.eval_index(cx, fr, e.slice)
        if isinstance(obj, KwDict):
            obj = obj.d
        if isinstance(obj, (SObj, SRef)) and not hasattr(obj, "py_getitem"):
            mb = self.registry.method_binding(obj.cls, "__getitem__")
            if mb is not None:
                return mb(cx, obj, idx)
            f = self.lookup_attr(cx, obj, "__getitem__")
            return self.call_value(cx, fr, f, [idx], {})
        if isinstance(obj, (list, tuple, str)) and isinstance(idx, SInt):
            v = z3.simplify(idx.t)
            if z3.is_int_value(v):
                idx = v.as_long()
        if isinstance(obj, dict) and is_sym(idx):
            # concrete dict, symbolic key: decide which key
            for k, v in obj.items():
                if cx.decide(as_bool(cx, V.v_eq(cx, idx, k))):
                    return v
            cx.py_raise("KeyError", "missing key")
        if isinstance(obj, list) and isinstance(idx, SliceVal) and not any(is_sym(x) for x in (idx.lo, idx.hi, idx.step)):
            return obj[slice(idx.lo, idx.hi, idx.step)]
        if isinstance(obj, list) and is_sym(idx):
            raise Unsupported("concrete list with symbolic index")
        return V.v_getitem(cx, obj, idx)

    def ex_UnaryOp(self, cx, fr, e):
        v = self.eval(cx, fr, e.operand)
        if isinstance(e.op, ast.Not):
            t = truth(cx, v)
            return (not t) if isinstance(t, bool) else SBool(z3.Not(t))
        if isinstance(e.op, ast.USub):
            return -v if not is_sym(v) else v.py_neg(cx)
        raise Unsupported("unary op")

    def ex_BoolOp(self, cx, fr, e):
        # python semantics: returns an operand; short-circuit via forks
        is_and = isinstance(e.op, ast.And)
        el = getattr(cx, "elem", None)
        if el is not None:
            # element mode: no forks; boolean operands only; later operands' failures are guarded by reachability
            guard = z3.BoolVal(True)
            acc = None
            for sub in e.values:
                n0 = len(el.fails)
                v = self.eval(cx, fr, sub)
                t = truth(cx, v)
                if not (isinstance(v, (bool, SBool)) or z3.is_bool(v)) and not getattr(el, "truth_only", False):
                    # (a consumer that only uses the truth value of the result — filter(), a comprehension's `if` — may say so)
                    raise Unsupported("non-boolean operand of and/or in a quantified context")
                tb = as_bool(cx, t)
                el.fails[n0:] = [(x, z3.And(guard, c)) for x, c in el.fails[n0:]]
                acc = tb if acc is None else (z3.And(acc, tb) if is_and else z3.Or(acc, tb))
                guard = z3.And(guard, tb if is_and else z3.Not(tb))
            return SBool(acc)
        v = None
        for i, sub in enumerate(e.values):
            v = self.eval(cx, fr, sub)
            if i == len(e.values) - 1:
                return v
            t = truth(cx, v)
            if isinstance(t, bool):
                if t != is_and:
                    return v
                continue
            d = cx.decide(t)
            if d != is_and:
                return v
        return v

    def ex_IfExp(self, cx, fr, e):
        if cx.decide(truth(cx, self.eval(cx, fr, e.test))):
            return self.eval(cx, fr, e.body)
        return self.eval(cx, fr, e.orelse)

    def ex_Compare(self, cx, fr, e):
        left = self.eval(cx, fr, e.left)
        res = None
        for op, rnode in zip(e.ops, e.comparators):
            right = self.eval(cx, fr, rnode)
            r = self.compare(cx, op, left, right)
            if res is None:
                res = r
            else:
                res = combine_and(cx, res, r)
            left = right
        if isinstance(res, bool):
            return res
        return SBool(as_bool(cx, res)) if not isinstance(res, SVal) else res

    def compare(self, cx, op, a, b):
        if isinstance(op, ast.Eq):
            return V.v_eq(cx, a, b)
        if isinstance(op, ast.NotEq):
            r = V.v_eq(cx, a, b)
            return (not r) if isinstance(r, bool) else z3.Not(as_bool(cx, r))
        if isinstance(op, (ast.Is, ast.IsNot)):
            r = self.is_same(cx, a, b)
            if isinstance(op, ast.IsNot):
                r = (not r) if isinstance(r, bool) else z3.Not(as_bool(cx, r))
            return r
        if isinstance(op, (ast.In, ast.NotIn)):
            if isinstance(b, KwDict):
                b = b.d
            if isinstance(b, (SObj, SRef)) and not hasattr(b, "py_contains"):
                mb = self.registry.method_binding(b.cls, "__contains__")
                r = mb(cx, b, a) if mb is not None else self.call_value(cx, None, self.lookup_attr(cx, b, "__contains__"), [a], {})
                r = truth(cx, r)
            else:
                r = V.v_contains(cx, b, a)
            if isinstance(op, ast.NotIn):
                r = (not r) if isinstance(r, bool) else z3.Not(as_bool(cx, r))
            return r
        sym = {ast.Lt: "<", ast.LtE: "<=", ast.Gt: ">", ast.GtE: ">="}[type(op)]
        # rich comparison on repo objects goes through their methods
        if isinstance(a, (SRef, SObj)):
            return self.obj_richcmp(cx, sym, a, b)
        if isinstance(a, SMaybe):
            a = a.force(cx, "TypeError")
        if isinstance(b, SMaybe):
            b = b.force(cx, "TypeError")
        return V.v_cmp(cx, sym, a, b)

    def obj_richcmp(self, cx, sym, a, b):
        name = {"<": "__lt__", "<=": "__le__", ">": "__gt__", ">=": "__ge__"}[sym]
        f = self.lookup_attr(cx, a, name)
        return self.call_value(cx, None, f, [b], {})

    def is_same(self, cx, a, b):
        if a is None or b is None:
            o = b if a is None else a
            if a is None and b is None:
                return True
            return V.v_is_none(cx, o)
        if isinstance(a, SClass):
            return a.py_is(cx, b)
        if isinstance(b, SClass):
            return b.py_is(cx, a)
        if isinstance(a, SRef) and isinstance(b, SRef):
            return a.t == b.t
        if isinstance(a, Sentinel) or isinstance(b, Sentinel):
            return a is b
        if isinstance(a, SBool) and isinstance(b, bool):
            return a.t == b
        if isinstance(a, SVal) and hasattr(a, "py_is"):
            return a.py_is(cx, b)
        if isinstance(b, SVal) and hasattr(b, "py_is"):
            return b.py_is(cx, a)
        if not is_sym(a) and not is_sym(b):
            return a is b
        if isinstance(a, SMaybe) or isinstance(b, SMaybe):
            # `x is y` with optionals: only None-ness is decidable; otherwise unsupported
            raise Unsupported("`is` between optional values")
        return a is b

    def ex_BinOp(self, cx, fr, e):
        return self.binop(cx, e.op, self.eval(cx, fr, e.left), self.eval(cx, fr, e.right))

    def binop(self, cx, op, a, b, inplace=False):
        name = {ast.Add: "add", ast.Sub: "sub", ast.Mult: "mul", ast.BitOr: "or", ast.BitAnd: "and", ast.Div: "truediv", ast.FloorDiv: "floordiv", ast.Mod: "mod"}.get(type(op))
        if name is None:
            raise Unsupported(f"binary operator {type(op).__name__}")
        if isinstance(a, SMaybe):
            a = a.force(cx, "TypeError")
        if isinstance(b, SMaybe):
            b = b.force(cx, "TypeError")
        if not is_sym(a) and not is_sym(b):
            import operator

            if isinstance(a, list) and isinstance(b, (list, ConcreteIter)) and name == "add":
                return a + list(b.items if isinstance(b, ConcreteIter) else b)
            return getattr(operator, {"add": "add", "sub": "sub", "mul": "mul", "or": "or_", "and": "and_", "truediv": "truediv", "floordiv": "floordiv", "mod": "mod"}[name])(a, b)
        if is_sym(a):
            m = getattr(a, "py_" + name, None)
            if m is not None:
                if inplace and name == "add" and isinstance(a, SSeq):
                    r = m(cx, b)
                    a.t = r.t
                    cx.note_write(("seq", id(a)), a)
                    return a
                return m(cx, b)
            raise Unsupported(f"{name} on {type(a).__name__}")
        m = getattr(b, "py_r" + name, None)
        if m is None:
            if isinstance(a, (list, tuple)) and isinstance(b, SSeq) and name == "add":
                return b.py_radd(cx, a)
            raise Unsupported(f"r{name} on {type(b).__name__}")
        return m(cx, a)

    def ex_Call(self, cx, fr, e):
        # method call on concrete python containers handled natively
        if isinstance(e.func, ast.Attribute):
            recv = self.eval(cx, fr, e.func.value)
            args, kwargs = self.eval_args(cx, fr, e)
            return self.call_method(cx, fr, recv, e.func.attr, args, kwargs)
        if isinstance(e.func, ast.Name) and e.func.id == "cast" and len(e.args) == 2 and not e.keywords:
            return self.eval(cx, fr, e.args[1])  # typing.cast(T, x) -> x (the type argument is not evaluated)
        f = self.eval(cx, fr, e.func)
        args, kwargs = self.eval_args(cx, fr, e)
        return self.call_value(cx, fr, f, args, kwargs)

    def eval_args(self, cx, fr, e):
        args = []
        for a in e.args:
            if isinstance(a, ast.Starred):
                v = self.eval(cx, fr, a.value)
                items = self.iter_concrete(cx, v)
                if items is None and isinstance(v, LazyGen):
                    args.append(StarOf(v))  # f(*(g(x) for x in S)): only a callee that knows what it means accepts it (spec binding)
                    continue
                if items is None and hasattr(v, "elementwise"):
                    args.append(v)  # a spec-level description of an argument list of symbolic length
                    continue
                if items is None:
                    raise Unsupported("*args of symbolic length")
                args += items
            else:
                args.append(self.eval(cx, fr, a))
        kwargs = {}
        for k in e.keywords:
            if k.arg is None:
                v = self.eval(cx, fr, k.value)
                if isinstance(v, KwDict):
                    kwargs.update(v.d)
                elif isinstance(v, dict):
                    kwargs.update(v)
                elif hasattr(v, "as_kwargs"):
                    kwargs["__symbolic_kwargs__"] = v  # a spec-level description of keyword arguments: only a callee that knows what it means accepts it
                else:
                    raise Unsupported("**kwargs of symbolic dict")
            else:
                kwargs[k.arg] = self.eval(cx, fr, k.value)
        return args, kwargs

    def call_method(self, cx, fr, recv, name, args, kwargs):
        if isinstance(recv, SuperProxy):
            return self.call_super(cx, fr, recv, name, args, kwargs)
        if isinstance(recv, SMaybe):
            recv = recv.force(cx, "AttributeError")
        if isinstance(recv, KwDict):
            return recv.call(cx, name, args, kwargs)
        if isinstance(recv, (list, dict, set, str, tuple, ConcreteIter)) and not isinstance(recv, SVal):
            return concrete_method(self, cx, fr, recv, name, args, kwargs)
        if recv is None:
            cx.py_raise("AttributeError", f"None.{name}")
        if isinstance(recv, (SRef, SObj, SClass)):
            mb = self.registry.method_binding(recv.cls if not isinstance(recv, SClass) else recv.name, name)
            if mb is not None:
                return mb(cx, recv, *args, **kwargs)
            f = V.v_getattr(cx, recv, name)
            return self.call_value(cx, fr, f, args, kwargs)
        if isinstance(recv, SVal):
            if hasattr(recv, "meth_" + name):
                return recv.py_call_method(cx, name, args, kwargs)
            f = recv.py_getattr(cx, name)
            return self.call_value(cx, fr, f, args, kwargs)
        raise Unsupported(f"method {name} on {recv!r}")

    def call_super(self, cx, fr, sp, name, args, kwargs):
        mi, cls = sp.modinfo, sp.cls
        mb = self.registry.method_binding(cls, "super." + name)
        if mb is not None:
            return mb(cx, sp.obj, *args, **kwargs)
        for b in mi.class_bases(cls):
            r = find_method_x(mi, b, name)
            if r is not None:
                mi2, q, node = r
                return self.call_repo(cx, RepoFunc(mi2, q, node, bound=sp.obj, kind="method"), args, kwargs)
        raise Unsupported(f"super().{name} not found for {cls}")

    def eval_exprs_on_element(self, cx, fr, target, elem_val, exprs, index):
        """Evaluate expressions with `target` bound to a generic element; returns (values, fails, axioms)."""
        old = getattr(cx, "elem", None)
        cx.elem = ElemCtx(index)
        cx.pure_depth = getattr(cx, "pure_depth", 0) + 1
        try:
            if target is not None:
                self.assign(cx, fr, target, elem_val)
            vals = [self.eval(cx, fr, x) for x in exprs]
            return vals, cx.elem.fails, cx.elem.axioms
        finally:
            cx.pure_depth -= 1
            cx.elem = old

    def eval_on_element(self, cx, func, elem_val, index, truth_only=False):
        """Call a closure / function value on a generic element (element mode). truth_only: the caller uses nothing but
        the truth value of the result, so `a and b` over non-boolean operands may be read as the conjunction of their truths."""
        old = getattr(cx, "elem", None)
        cx.elem = ElemCtx(index)
        cx.elem.truth_only = truth_only
        cx.pure_depth = getattr(cx, "pure_depth", 0) + 1
        try:
            v = self.call_value(cx, None, func, [elem_val], {})
            return v, cx.elem.fails, cx.elem.axioms
        finally:
            cx.pure_depth -= 1
            cx.elem = old

    def ex_Lambda(self, cx, fr, e):
        return Closure(e, fr.env, fr.modinfo)

    def ex_ListComp(self, cx, fr, e):
        return self.comprehension(cx, fr, e, "list")

    def ex_SetComp(self, cx, fr, e):
        return self.comprehension(cx, fr, e, "set")

    def ex_GeneratorExp(self, cx, fr, e):
        if len(e.generators) == 1 and not e.generators[0].ifs:
            src = self.eval(cx, fr, e.generators[0].iter)
            if hasattr(src, "py_quantify") or (isinstance(src, (SSet, SSeq, SMap)) and self.iter_concrete(cx, src) is None):
                return LazyGen(fr, e, src)  # consumed by all()/any() as a quantified predicate
        r = self.comprehension(cx, fr, e, "list")
        return ConcreteIter(r) if isinstance(r, list) else r

    def quantify_gen(self, cx, g, universal: bool):
        """all(P(x) for x in S) / any(...) over a symbolic collection: P evaluated once on a generic element."""
        e, src, fr = g.node, g.src, g.fr
        if hasattr(src, "py_quantify"):  # spec-level collection with its own reading of all()/any() over it
            return src.py_quantify(self, cx, g, universal)
        sub = Frame(fr.modinfo, fr.qual, Env(fr.env), spec=fr.spec, cls=fr.cls)
        if isinstance(src, SSeq):
            i = z3.Int(fresh_name("qi"))
            elem, rng, bound = src.at(i), z3.And(0 <= i, i < src.n), [i]
        else:
            kt = src.kt
            k = z3.Const(fresh_name("qk"), kt.sort())
            elem, rng, bound = kt.wrap(k), src.has(k), [k]
        vals, fails, axioms = self.eval_exprs_on_element(cx, sub, e.generators[0].target, elem, [e.elt], bound[0])
        for exc, fc in fails:
            cx.oblige(f"quantified-predicate-total:{exc}", "no-exception", z3.ForAll(bound, z3.Implies(rng, z3.Not(fc))), clause="the predicate is defined for every element")
        for ax in axioms:
            cx.assume(z3.ForAll(bound, z3.Implies(rng, ax)))
        p = as_bool(cx, truth(cx, vals[0]))
        return SBool(z3.ForAll(bound, z3.Implies(rng, p)) if universal else z3.Exists(bound, z3.And(rng, p)))

    def quantify_map(self, cx, g, universal: bool):
        """all(map(f, S)) / any(map(f, S)) over a symbolic collection: f evaluated once on a generic element."""
        src = g.src
        if isinstance(src, SSeq):
            i = z3.Int(fresh_name("qi"))
            elem, rng, bound = src.at(i), z3.And(0 <= i, i < src.n), [i]
        else:
            k = z3.Const(fresh_name("qk"), src.kt.sort())
            elem, rng, bound = src.kt.wrap(k), src.has(k), [k]
        v, fails, axioms = self.eval_on_element(cx, g.f, elem, bound[0])
        for exc, fc in fails:
            cx.oblige(f"quantified-predicate-total:{exc}", "no-exception", z3.ForAll(bound, z3.Implies(rng, z3.Not(fc))), clause="the predicate is defined for every element")
        for ax in axioms:
            cx.assume(z3.ForAll(bound, z3.Implies(rng, ax)))
        p = as_bool(cx, truth(cx, v))
        return SBool(z3.ForAll(bound, z3.Implies(rng, p)) if universal else z3.Exists(bound, z3.And(rng, p)))

    def ex_DictComp(self, cx, fr, e):
        return self.comprehension(cx, fr, e, "dict")

    def comprehension(self, cx, fr, e, kind):
        k = fr.comp_ordinal
        fr.comp_ordinal += 1
        sp = fr.spec
        schema = None
        if sp is not None and (fr.qual, k) in sp.comps:
            schema = sp.comps[(fr.qual, k)]
        elif sp is not None and fr.qual == sp.qual and k in sp.comps:
            schema = sp.comps[k]
        if schema is not None:
            r = schema(self, cx, fr, e)
            if r is not NotImplemented:
                return r
        if len(e.generators) != 1:
            raise Unsupported("nested comprehension generators")
        g = e.generators[0]
        src = self.eval(cx, fr, g.iter)
        items = self.iter_concrete(cx, src)
        if items is None:
            raise ContractStale(f"comprehension #{k} in {fr.qual} over a symbolic collection has no schema in the spec")
        out_l, out_d = [], {}
        sub = Frame(fr.modinfo, fr.qual, Env(fr.env), spec=fr.spec, cls=fr.cls)
        for x in items:
            self.assign(cx, sub, g.target, x)
            ok = True
            for c in g.ifs:
                if not cx.decide(truth(cx, self.eval(cx, sub, c))):
                    ok = False
                    break
            if not ok:
                continue
            if kind == "dict":
                kk = self.eval(cx, sub, e.key)
                if is_sym(kk) and not getattr(kk, "concrete_key", False):
                    raise Unsupported("dict comprehension with symbolic key")
                out_d[kk] = self.eval(cx, sub, e.value)
            else:
                out_l.append(self.eval(cx, sub, e.elt))
        if kind == "dict":
            return out_d
        if kind == "set":
            if any(is_sym(v) for v in out_l):
                raise Unsupported("set comprehension with symbolic elements")
            return set(out_l)
        return out_l


def typed_empty_from_annotation(ann):
    """`x: Dict[str, int] = {}` -> symbolic map of the annotated key/value sorts (annotation used as sort hint)."""
    from .containers import BOOL, INT, STR

    if isinstance(ann, ast.Subscript) and isinstance(ann.value, ast.Name) and ann.value.id in ("Dict", "dict"):
        sl = ann.slice
        if isinstance(sl, ast.Tuple) and len(sl.elts) == 2 and all(isinstance(x, ast.Name) for x in sl.elts):
            m = {"str": STR, "int": INT, "bool": BOOL}
            kt, vt = m.get(sl.elts[0].id), m.get(sl.elts[1].id)
            if kt is not None and vt is not None:
                return SMap(kt, vt, name="ann")
    return None


def combine_and(cx, a, b):
    if isinstance(a, bool) and isinstance(b, bool):
        return a and b
    return z3.And(as_bool(cx, a), as_bool(cx, b))


def _load(t):
    import copy

    n = copy.copy(t)
    n.ctx = ast.Load()
    return n


def assigned_names(stmts):
    out = set()
    for st in stmts:
        for n in ast.walk(st):
            if isinstance(n, ast.Name) and isinstance(n.ctx, ast.Store):
                out.add(n.id)
            elif isinstance(n, ast.AugAssign) and isinstance(n.target, ast.Name):
                out.add(n.target.id)
    return out


def havoc_value(cx, cur, name):
    if cur is None:
        raise Unsupported(f"havoc of `{name}` whose value is None/unknown; declare it in the loop spec")
    if isinstance(cur, bool):
        return SBool(z3.Bool(fresh_name(name)))
    if isinstance(cur, int):
        return SInt.fresh(name)
    if isinstance(cur, str):
        return SStr.fresh(name)
    if isinstance(cur, SVal):
        if hasattr(cur, "havoc_inplace"):
            cur.havoc_inplace(cx, name)
            return cur
        return cur.fresh_like(cx, name)
    raise Unsupported(f"havoc of `{name}` = {cur!r}")


class Env:
    def __init__(self, parent):
        self.vars, self.parent = {}, parent

    def set(self, name, v):
        self.vars[name] = v

    def has(self, name):
        e = self
        while e is not None:
            if name in e.vars:
                return True
            e = e.parent
        return False

    def lookup(self, name):
        e = self
        while e is not None:
            if name in e.vars:
                return e.vars[name]
            e = e.parent
        return None

    def __getitem__(self, name):
        if not self.has(name):
            raise KeyError(name)
        return self.lookup(name)


class IterState:
    """Ghost state of a cut loop: index (range/seq) or processed-set (set/dict iteration)."""

    def __init__(self, schema):
        self.schema = schema
        self.i = None  # current index (range: next value; seq: next position)
        self.processed = None  # z3 array K->Bool
        self.cur = None  # element term of the iteration in progress

    def init(self, cx):
        s = self.schema
        if s is None:
            return
        if s.kind == "range":
            self.i = (term(s.hi) - 1) if s.descending else term(s.lo)
        elif s.kind == "seq":
            self.i = z3.IntVal(0)
        elif s.kind == "set":
            self.processed = z3.K(s.kt.sort(), z3.BoolVal(False))

    def havoc(self, cx):
        s = self.schema
        if s is None:
            return
        if s.kind in ("range", "seq"):
            self.i = z3.Int(fresh_name("it_i"))
        else:
            self.processed = z3.Const(fresh_name("it_proc"), z3.ArraySort(s.kt.sort(), z3.BoolSort()))

    def bounds(self, cx):
        """Structural facts about the ghost iterator (assumed together with the invariant)."""
        s = self.schema
        if s is None:
            return z3.BoolVal(True)
        if s.kind == "range":
            lo, hi = term(s.lo), term(s.hi)
            if s.descending:
                return z3.If(hi <= lo, self.i == hi - 1, z3.And(self.i >= lo - 1, self.i <= hi - 1))
            return z3.If(hi <= lo, self.i == lo, z3.And(self.i >= lo, self.i <= hi))
        if s.kind == "seq":
            return z3.And(self.i >= 0, self.i <= s.seq.n)
        k = z3.Const(fresh_name("k_b"), s.kt.sort())
        return z3.ForAll([k], z3.Implies(z3.Select(self.processed, k), z3.Select(s.dom, k)))

    def has_next(self, cx):
        s = self.schema
        if s.kind == "range":
            return (self.i >= term(s.lo)) if s.descending else (self.i < term(s.hi))
        if s.kind == "seq":
            return self.i < s.seq.n
        k = z3.Const(fresh_name("k_hn"), s.kt.sort())
        return z3.Exists([k], z3.And(z3.Select(s.dom, k), z3.Not(z3.Select(self.processed, k))))

    def next_elem(self, cx):
        s = self.schema
        if s.kind == "range":
            self.cur = self.i
            return SInt(self.i)
        if s.kind == "seq":
            self.cur = self.i
            if getattr(s, "enumerate", False):
                return (SInt(self.i), s.seq.at(self.i))
            return s.seq.at(self.i)
        k = z3.Const(fresh_name("it_k"), s.kt.sort())
        cx.assume(z3.And(z3.Select(s.dom, k), z3.Not(z3.Select(self.processed, k))))
        self.cur = k
        return s.mk_elem(k)

    def advance(self, cx):
        s = self.schema
        if s is None:
            return
        if s.kind == "range":
            self.i = self.i - 1 if s.descending else self.i + 1
        elif s.kind == "seq":
            self.i = self.i + 1
        else:
            self.processed = z3.Store(self.processed, self.cur, z3.BoolVal(True))


class Sentinel(SVal):
    def __init__(self, name):
        self.name = name

    def py_truth(self, cx):
        return True

    def __repr__(self):
        return self.name


NOT_IMPLEMENTED = Sentinel("NotImplemented")


class BytesLit(SVal):
    def __init__(self, b):
        self.b = b

    def py_eq(self, cx, o):
        if isinstance(o, BytesLit):
            return self.b == o.b
        if isinstance(o, SVal):
            return o.py_eq(cx, self)
        return False

    def py_truth(self, cx):
        return len(self.b) > 0


class KwDict(SVal):
    """**kwargs dict with concrete keys."""

    def __init__(self, d):
        self.d = dict(d)

    def py_truth(self, cx):
        return len(self.d) > 0

    def py_contains(self, cx, k):
        if is_sym(k):
            raise Unsupported("symbolic key in kwargs")
        return k in self.d

    def call(self, cx, name, args, kwargs):
        if name == "pop":
            k = args[0]
            if k in self.d:
                return self.d.pop(k)
            if len(args) > 1:
                return args[1]
            cx.py_raise("KeyError", k)
        if name == "get":
            return self.d.get(args[0], args[1] if len(args) > 1 else None)
        if name == "keys":
            return ConcreteIter(list(self.d.keys()))
        if name == "items":
            return ConcreteIter([(k, v) for k, v in self.d.items()])
        raise Unsupported(f"kwargs.{name}")

    def py_len(self, cx):
        return len(self.d)


class ConcreteIter(SVal):
    def __init__(self, items):
        self.items = list(items)

    def py_truth(self, cx):
        return True


class SEnumerate(SVal):
    def __init__(self, seq):
        self.seq = seq

    def py_iter_schema(self, cx):
        it = SeqIter(self.seq)
        it.enumerate = True
        return it


class LazyGen(SVal):
    """generator expression over a symbolic collection (only all()/any() can consume it)"""

    def __init__(self, fr, node, src):
        self.fr, self.node, self.src = fr, node, src

    def py_truth(self, cx):
        return True


class StarOf(SVal):
    """the argument list *(g(x) for x in S) of symbolic length; `elementwise(interp, cx)` gives (bound var, range, g(var))"""

    def __init__(self, gen):
        self.gen = gen

    def elementwise(self, interp, cx):
        g = self.gen
        e, src, fr = g.node, g.src, g.fr
        sub = Frame(fr.modinfo, fr.qual, Env(fr.env), spec=fr.spec, cls=fr.cls)
        if isinstance(src, SSeq):
            i = z3.Int(fresh_name("si"))
            elem, rng, bound = src.at(i), z3.And(0 <= i, i < src.n), i
        else:
            k = z3.Const(fresh_name("sk"), src.kt.sort())
            elem, rng, bound = src.kt.wrap(k), src.has(k), k
        vals, fails, axioms = interp.eval_exprs_on_element(cx, sub, e.generators[0].target, elem, [e.elt], bound)
        if fails or axioms:
            raise Unsupported("the generated arguments may raise")
        return bound, rng, vals[0]


class MapGen(SVal):
    """map(f, S) over a symbolic collection (only all()/any() can consume it)"""

    def __init__(self, f, src):
        self.f, self.src = f, src

    def py_truth(self, cx):
        return True


class ConcreteBound(SVal):
    def __init__(self, obj, name):
        self.obj, self.name = obj, name


class SuperProxy(SVal):
    def __init__(self, modinfo, cls, obj):
        self.modinfo, self.cls, self.obj = modinfo, cls, obj


def concrete_method(interp, cx, fr, recv, name, args, kwargs):
    """Methods of concrete python containers / strings (native semantics)."""
    if isinstance(recv, ConcreteIter):
        recv = recv.items
    if isinstance(recv, list):
        if name == "append":
            recv.append(args[0])
            return None
        if name == "pop":
            if not recv:
                cx.py_raise("IndexError", "pop from empty list")
            return recv.pop(*args)
        if name == "copy":
            return list(recv)
        if name == "extend":
            recv.extend(interp.iter_concrete(cx, args[0]))
            return None
    if isinstance(recv, dict):
        if name == "get":
            k = args[0]
            if is_sym(k):
                for kk, v in recv.items():
                    if cx.decide(as_bool(cx, V.v_eq(cx, k, kk))):
                        return v
                return args[1] if len(args) > 1 else None
            return recv.get(*args)
        if name == "items":
            return ConcreteIter([(k, v) for k, v in recv.items()])
        if name == "keys":
            return ConcreteIter(list(recv.keys()))
        if name == "values":
            return ConcreteIter(list(recv.values()))
        if name == "pop":
            if is_sym(args[0]):
                raise Unsupported("dict.pop(symbolic)")
            if args[0] in recv:
                return recv.pop(args[0])
            if len(args) > 1:
                return args[1]
            cx.py_raise("KeyError", args[0])
        if name == "update":
            recv.update(args[0])
            return None
        if name == "copy":
            return dict(recv)
    if isinstance(recv, set):
        if name == "add":
            recv.add(args[0])
            return None
        if name == "union":
            return recv | set(args[0])
        if name in ("intersection", "difference") and len(args) == 1 and isinstance(args[0], (set, frozenset)) and not any(is_sym(x) for x in recv | set(args[0])):
            return recv & args[0] if name == "intersection" else recv - args[0]
    if isinstance(recv, str):
        if name == "join" and len(args) == 1 and hasattr(args[0], "py_joined_by"):
            return args[0].py_joined_by(cx, recv)  # spec-level sequence of strings that knows its own join
        if name == "join" and len(args) == 1:
            items = cx.run.interp.iter_concrete(cx, args[0])
            if items is not None and all(isinstance(x, (str, SStr)) for x in items) and any(isinstance(x, SStr) for x in items):
                # "sep".join of a fixed number of (symbolic) strings
                parts = []
                for i, x in enumerate(items):
                    if i:
                        parts.append(z3.StringVal(recv))
                    parts.append(term(x))
                return SStr(z3.Concat(*parts) if len(parts) > 1 else parts[0])
        if any(is_sym(a) for a in args):
            return lift(recv).py_call_method(cx, name, args, kwargs)
        if name in ("startswith", "endswith", "find", "split", "strip", "lstrip", "rstrip", "join", "encode", "lower", "upper", "replace", "capitalize", "format"):
            return getattr(recv, name)(*args, **kwargs)
    raise Unsupported(f"method {type(recv).__name__}.{name}")


# ----------------------------------------------------------------------------------------------
# builtins


def make_builtins(interp):
    B = {}

    def reg(name):
        def deco(fn):
            B[name] = Builtin(name, fn)
            return fn

        return deco

    @reg("len")
    def _len(cx, fr, v):
        if isinstance(v, KwDict):
            return len(v.d)
        if isinstance(v, ConcreteIter):
            return len(v.items)
        if isinstance(v, SMaybe):
            v = v.force(cx, "TypeError")
        return V.v_len(cx, v)

    @reg("isinstance")
    def _isinstance(cx, fr, v, c):
        cs = c if isinstance(c, tuple) else (c,)
        res = False
        for k in cs:
            nm = k.name if isinstance(k, SClass) else getattr(k, "name", None)
            if nm is None:
                raise Unsupported(f"isinstance against {k!r}")
            r = V.v_isinstance(cx, v, nm)
            if isinstance(r, bool):
                if r:
                    return True
                continue
            res = r if res is False else z3.Or(as_bool(cx, res), as_bool(cx, r))
        return res if isinstance(res, bool) else SBool(as_bool(cx, res))

    @reg("range")
    def _range(cx, fr, *a):
        if len(a) == 1:
            return SRange(0, a[0])
        if len(a) == 2:
            return SRange(a[0], a[1])
        raise Unsupported("range with step")

    @reg("reversed")
    def _reversed(cx, fr, v):
        if isinstance(v, SRange):
            return SRange(v.lo, v.hi, descending=not v.descending)
        items = interp.iter_concrete(cx, v)
        if items is not None:
            return list(reversed(items))
        raise Unsupported("reversed of symbolic sequence")

    @reg("enumerate")
    def _enumerate(cx, fr, v):
        items = interp.iter_concrete(cx, v)
        if items is not None:
            return [(i, x) for i, x in enumerate(items)]
        if isinstance(v, SSeq):
            return SEnumerate(v.snapshot())
        raise Unsupported("enumerate() of this value")

    @reg("hash")
    def _hash(cx, fr, v):
        return V.v_hash(cx, v)

    @reg("type")
    def _type(cx, fr, v):
        if isinstance(v, (SRef, SObj)):
            dyn = getattr(v, "dyn_class", None)
            return dyn if dyn is not None else SClass(v.cls)
        if isinstance(v, ExcVal):
            return SClass(v.cls)
        if hasattr(v, "py_type"):
            return v.py_type(cx)
        raise Unsupported(f"type() of {v!r}")

    @reg("bool")
    def _bool(cx, fr, v=False):
        t = truth(cx, v)
        return t if isinstance(t, bool) else SBool(t)

    @reg("int")
    def _int(cx, fr, v=0):
        if isinstance(v, (int, bool)):
            return int(v)
        if isinstance(v, SInt):
            return v
        if isinstance(v, SBool):
            return SInt(z3.If(v.t, 1, 0))
        if z3.is_bool(v):
            return SInt(z3.If(v, 1, 0))
        if isinstance(v, (str, SStr)):
            t = term(v)
            # int(str) of a non-negative decimal literal; other strings raise ValueError
            if not cx.decide(z3.StrToInt(t) >= 0):
                cx.py_raise("ValueError", "invalid literal for int()")
            return SInt(z3.StrToInt(t))
        raise Unsupported("int() of this value")

    @reg("str")
    def _str(cx, fr, v=""):
        return interp.to_str(cx, v)

    @reg("repr")
    def _repr(cx, fr, v=""):
        return SStr.fresh("repr")

    @reg("print")
    def _print(cx, fr, *a, **k):
        return None

    @reg("list")
    def _list(cx, fr, v=()):
        items = interp.iter_concrete(cx, v)
        if items is not None:
            return list(items)
        if isinstance(v, SSeq):
            return SSeq(v.elt, v.t)
        if isinstance(v, SMaybe):
            raise Unsupported("list(optional)")
        raise Unsupported(f"list() of {v!r}")

    @reg("tuple")
    def _tuple(cx, fr, v=()):
        items = interp.iter_concrete(cx, v)
        if items is not None:
            return tuple(items)
        raise Unsupported("tuple() of symbolic")

    @reg("set")
    def _set(cx, fr, v=()):
        if isinstance(v, SSet):
            return SSet(v.kt, v.dom)
        if isinstance(v, SMap):
            return SSet(v.kt, v.dom)
        items = interp.iter_concrete(cx, v)
        if items is not None and not any(is_sym(x) for x in items):
            return set(items)
        raise Unsupported("set() of symbolic")

    @reg("dict")
    def _dict(cx, fr, v=None, **kw):
        if v is None:
            return dict(kw)
        if isinstance(v, SMap):
            return v.meth_copy(cx)
        if isinstance(v, dict):
            return dict(v)
        raise Unsupported("dict() of symbolic")

    @reg("min")
    def _min(cx, fr, a, b):
        c = as_bool(cx, V.v_cmp(cx, "<", b, a))
        if isinstance(a, (int, SInt)) and isinstance(b, (int, SInt)):
            return SInt(z3.If(c, term(b), term(a)))
        raise Unsupported("min of non-int")

    @reg("max")
    def _max(cx, fr, a, b):
        c = as_bool(cx, V.v_cmp(cx, ">", b, a))
        if isinstance(a, (int, SInt)) and isinstance(b, (int, SInt)):
            return SInt(z3.If(c, term(b), term(a)))
        raise Unsupported("max of non-int")

    @reg("cast")
    def _cast(cx, fr, t, v):
        return v

    @reg("super")
    def _super(cx, fr, *a):
        cls = fr.cls
        obj = fr.env.lookup("self")
        if obj is None:
            obj = fr.env.lookup("cls")
        if cls is None:
            raise Unsupported("super() outside class")
        return SuperProxy(fr.modinfo, cls, obj)

    @reg("issubclass")
    def _issubclass(cx, fr, a, b):
        if isinstance(a, SClass) and isinstance(b, SClass):
            if hasattr(a, "py_issubclass"):
                return a.py_issubclass(cx, b)
            d = ClassDecl.get(a.name)
            if d is not None:
                return d.is_subclass_of(b.name)
        if hasattr(a, "py_issubclass"):
            return a.py_issubclass(cx, b)
        raise Unsupported("issubclass on these values")

    @reg("getattr")
    def _getattr(cx, fr, o, n, *d):
        if is_sym(n):
            raise Unsupported("getattr with symbolic name")
        try:
            return V.v_getattr(cx, o, n)
        except Unsupported:
            if d:
                return d[0]
            raise
        except PyRaise as pr:  # the object's own model says: no such attribute
            if d and getattr(pr.exc, "cls", None) == "AttributeError":
                return d[0]
            raise

    @reg("any")
    def _any(cx, fr, it):
        if isinstance(it, LazyGen):
            return interp.quantify_gen(cx, it, universal=False)
        if isinstance(it, MapGen):
            return interp.quantify_map(cx, it, universal=False)
        items = interp.iter_concrete(cx, it)
        if items is None:
            raise Unsupported("any() of symbolic")
        ts = [truth(cx, x) for x in items]
        if all(isinstance(t, bool) for t in ts):
            return any(ts)
        return SBool(z3.Or(*[as_bool(cx, t) for t in ts]))

    @reg("all")
    def _all(cx, fr, it):
        if isinstance(it, LazyGen):
            return interp.quantify_gen(cx, it, universal=True)
        if isinstance(it, MapGen):
            return interp.quantify_map(cx, it, universal=True)
        items = interp.iter_concrete(cx, it)
        if items is None:
            raise Unsupported("all() of symbolic")
        ts = [truth(cx, x) for x in items]
        if all(isinstance(t, bool) for t in ts):
            return all(ts)
        return SBool(z3.And(*[as_bool(cx, t) for t in ts]))

    @reg("map")
    def _map(cx, fr, f, it):
        items = interp.iter_concrete(cx, it)
        if items is None and isinstance(it, SplitVal):
            # s.split(sep) has some number of parts: one path per count up to 3 (more: not read)
            n = it.py_len(cx).t
            for k in (3, 2, 1):
                if cx.decide(n == k):
                    items = [it.py_getitem(cx, i) for i in range(k)]
                    break
            else:
                cx.scope_limit("split-has-at-most-three-parts", "more than three parts of a split are not read: shown impossible here, or the function counts as undecided")
        if items is None:
            if isinstance(it, (SSeq, SSet)):
                return MapGen(f, it)  # only all()/any() can consume it
            raise Unsupported("map() over symbolic")
        return ConcreteIter([interp.call_value(cx, fr, f, [x], {}) for x in items])

    @reg("filter")
    def _filter(cx, fr, f, it):
        items = interp.iter_concrete(cx, it)
        if items is not None:
            out = []
            for x in items:
                if cx.decide(truth(cx, interp.call_value(cx, fr, f, [x], {}) if f is not None else x)):
                    out.append(x)
            return ConcreteIter(out)
        if isinstance(it, SSet) and f is not None:
            # {k in S | f(k)}: the predicate is evaluated once on a generic element
            k = z3.Const(fresh_name("fk"), it.kt.sort())
            v, fails, axioms = interp.eval_on_element(cx, f, it.kt.wrap(k), k)
            for exc, fc in fails:
                cx.oblige(f"quantified-predicate-total:{exc}", "no-exception", z3.ForAll([k], z3.Implies(it.has(k), z3.Not(fc))), clause="the filter predicate is defined for every element")
            for ax in axioms:
                cx.assume(z3.ForAll([k], z3.Implies(it.has(k), ax)))
            p = as_bool(cx, truth(cx, v))
            res = SSet.fresh(it.kt, "filtered")
            cx.assume(z3.ForAll([k], res.has(k) == z3.And(it.has(k), p)))
            return res
        raise Unsupported("filter() over this collection")

    @reg("sorted")
    def _sorted(cx, fr, it, key=None):
        items = interp.iter_concrete(cx, it)
        if items is not None and not any(is_sym(x) for x in items) and key is None:
            return sorted(items)
        raise Unsupported("sorted() of symbolic collection (needs a spec binding)")

    @reg("next")
    def _next(cx, fr, it, *d):
        items = interp.iter_concrete(cx, it)
        if items is None:
            raise Unsupported("next() of symbolic")
        if items:
            return items[0]
        if d:
            return d[0]
        cx.py_raise("StopIteration", "")

    B["NotImplemented"] = NOT_IMPLEMENTED
    B["True"], B["False"], B["None"] = True, False, None
    for tname in ("bytes", "object", "float", "frozenset", "bytearray", "Any", "Optional", "Dict", "List", "Set", "Tuple", "Union", "Type", "Callable"):
        B[tname] = SClass(tname)
    return B
