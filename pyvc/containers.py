"""Type descriptors, heap references and container values (Seq / Map / Set / objects) of pyvc."""
from __future__ import annotations

import z3

from .values import (
    SBool,
    SInt,
    SMaybe,
    SStr,
    STuple,
    SVal,
    SliceVal,
    Unsupported,
    as_bool,
    fresh_name,
    is_sym,
    lift,
    term,
    truth,
    v_eq,
)

RefSort = z3.DeclareSort("Ref")

# ----------------------------------------------------------------------------------------------
# type descriptors: how a python-level value maps to ONE z3 term (needed for seq elements, map values, heap fields)


class T:
    """Type descriptor. sort(): z3 sort; wrap(term) -> value; unwrap(value) -> term."""

    def sort(self):
        raise NotImplementedError

    def wrap(self, t):
        raise NotImplementedError

    def unwrap(self, cx, v):
        raise NotImplementedError

    def fresh(self, name):
        return self.wrap(z3.Const(fresh_name(name), self.sort()))


class TInt(T):
    def sort(self):
        return z3.IntSort()

    def wrap(self, t):
        return SInt(t)

    def unwrap(self, cx, v):
        if isinstance(v, bool):
            return z3.IntVal(int(v))
        if isinstance(v, (int, SInt)):
            return term(v)
        raise Unsupported(f"expected int, got {v!r}")


class TBool(T):
    def sort(self):
        return z3.BoolSort()

    def wrap(self, t):
        return SBool(t)

    def unwrap(self, cx, v):
        if isinstance(v, (bool, SBool)):
            return term(v)
        if z3.is_bool(v):
            return v
        raise Unsupported(f"expected bool, got {v!r}")


class TStr(T):
    def sort(self):
        return z3.StringSort()

    def wrap(self, t):
        return SStr(t)

    def unwrap(self, cx, v):
        if isinstance(v, (str, SStr)):
            return term(v)
        raise Unsupported(f"expected str, got {v!r}")


_tuple_sorts = {}


class TTuple(T):
    def __init__(self, *elts):
        self.elts = elts
        key = tuple(str(e.sort()) for e in elts)
        if key not in _tuple_sorts:
            name = "Tup_" + "_".join(k.replace(" ", "").replace("(", "").replace(")", "") for k in key)
            _tuple_sorts[key] = z3.TupleSort(name, [e.sort() for e in elts])
        self.s, self.mk, self.acc = _tuple_sorts[key]

    def sort(self):
        return self.s

    def wrap(self, t):
        return STuple(tuple(e.wrap(z3.simplify(a(t)) if False else a(t)) for e, a in zip(self.elts, self.acc)))

    def unwrap(self, cx, v):
        if isinstance(v, tuple):
            v = STuple(v)
        if not isinstance(v, STuple) or len(v.items) != len(self.elts):
            raise Unsupported(f"expected {len(self.elts)}-tuple, got {v!r}")
        return self.mk(*[e.unwrap(cx, x) for e, x in zip(self.elts, v.items)])


_opt_sorts = {}


class TOpt(T):
    def __init__(self, elt: T):
        self.elt = elt
        key = str(elt.sort())
        if key not in _opt_sorts:
            d = z3.Datatype("Opt_" + key.replace(" ", "").replace("(", "").replace(")", ""))
            d.declare("none")
            d.declare("some", ("val", elt.sort()))
            _opt_sorts[key] = d.create()
        self.s = _opt_sorts[key]

    def sort(self):
        return self.s

    def wrap(self, t):
        return SMaybe(self.s.is_none(t), self.elt.wrap(self.s.val(t)))

    def unwrap(self, cx, v):
        if v is None:
            return self.s.none
        if isinstance(v, SMaybe):
            return z3.If(v.isnone, self.s.none, self.s.some(self.elt.unwrap(cx, v.val)))
        return self.s.some(self.elt.unwrap(cx, v))


class TRef(T):
    def __init__(self, cls: str):
        self.cls = cls

    def sort(self):
        return RefSort

    def wrap(self, t):
        return SRef(self.cls, t)

    def unwrap(self, cx, v):
        if isinstance(v, SMaybe):
            v = v.force(cx, "TypeError")
        if isinstance(v, SRef):
            return v.t
        raise Unsupported(f"expected object of {self.cls}, got {v!r}")


_list_sorts = {}


class TSeq(T):
    """python list as ONE term: tuple (len: Int, arr: Array Int -> elem). Lists are compared extensionally up to
    their length (never by term equality). The array encoding keeps quantified invariants inside arrays+LIA+UF,
    where instantiation works; z3's Seq theory did not decide the same invariants (probed)."""

    def __init__(self, elt: T):
        self.elt = elt
        key = str(elt.sort())
        if key not in _list_sorts:
            name = "List_" + key.replace(" ", "").replace("(", "").replace(")", "")
            _list_sorts[key] = z3.TupleSort(name, [z3.IntSort(), z3.ArraySort(z3.IntSort(), elt.sort())])
        self.s, self.mk, (self.f_len, self.f_arr) = _list_sorts[key]

    def sort(self):
        return self.s

    def wrap(self, t):
        return SSeq(self.elt, t)

    def unwrap(self, cx, v):
        if isinstance(v, SSeq):
            return v.t
        if isinstance(v, (list, tuple)):
            arr = z3.Const(fresh_name("lit_arr"), z3.ArraySort(z3.IntSort(), self.elt.sort()))
            for i, x in enumerate(v):
                arr = z3.Store(arr, i, self.elt.unwrap(cx, x))
            return self.mk(z3.IntVal(len(v)), arr)
        raise Unsupported(f"expected sequence, got {v!r}")


class TSetT(T):
    """python set as ONE term: characteristic array K -> Bool"""

    def __init__(self, kt: T):
        self.kt = kt

    def sort(self):
        return z3.ArraySort(self.kt.sort(), z3.BoolSort())

    def wrap(self, t):
        return SSet(self.kt, t)

    def unwrap(self, cx, v):
        if isinstance(v, SSet):
            return v.dom
        if isinstance(v, (set, frozenset, list, tuple)):
            t = z3.K(self.kt.sort(), z3.BoolVal(False))
            for x in v:
                t = z3.Store(t, self.kt.unwrap(cx, x), z3.BoolVal(True))
            return t
        raise Unsupported(f"expected set, got {v!r}")


_map_sorts = {}


class TMap(T):
    """python dict as ONE term: tuple (dom: Array K Bool, val: Array K V). Compared extensionally."""

    def __init__(self, kt: T, vt: T):
        self.kt, self.vt = kt, vt
        key = (str(kt.sort()), str(vt.sort()))
        if key not in _map_sorts:
            name = "Map_" + "_".join(k.replace(" ", "").replace("(", "").replace(")", "") for k in key)
            _map_sorts[key] = z3.TupleSort(name, [z3.ArraySort(kt.sort(), z3.BoolSort()), z3.ArraySort(kt.sort(), vt.sort())])
        self.s, self.mk, (self.f_dom, self.f_val) = _map_sorts[key]

    def sort(self):
        return self.s

    def wrap(self, t):
        return SMap(self.kt, self.vt, self.f_dom(t), self.f_val(t))

    def unwrap(self, cx, v):
        if isinstance(v, SMap):
            return self.mk(v.dom, v.val)
        if isinstance(v, dict) and not v:
            return self.mk(z3.K(self.kt.sort(), z3.BoolVal(False)), z3.Const(fresh_name("emp_val"), z3.ArraySort(self.kt.sort(), self.vt.sort())))
        raise Unsupported(f"expected dict, got {v!r}")


INT, BOOL, STR = TInt(), TBool(), TStr()


# ----------------------------------------------------------------------------------------------
# heap objects: SRef (z3 Ref + per-class field arrays kept in cx.heap)


class ClassDecl:
    """Declared shape of a repo/dependency class for SRef objects."""

    registry = {}

    def __init__(self, name, fields=None, bases=(), frozen=False):
        self.name, self.fields, self.bases, self.frozen = name, dict(fields or {}), tuple(bases), frozen
        ClassDecl.registry[name] = self

    @classmethod
    def get(cls, name):
        return cls.registry.get(name)

    def all_fields(self):
        res = {}
        for b in self.bases:
            bd = ClassDecl.get(b)
            if bd:
                res.update(bd.all_fields())
        res.update(self.fields)
        return res

    def is_subclass_of(self, other: str) -> bool:
        if self.name == other:
            return True
        return any((ClassDecl.get(b) and ClassDecl.get(b).is_subclass_of(other)) or b == other for b in self.bases)


class SRef(SVal):
    """Reference to a heap object of a declared class; fields live in cx.heap[(owner_class, field)] arrays."""

    def __init__(self, cls: str, t):
        self.cls, self.t = cls, t

    @staticmethod
    def fresh(cls, name):
        return SRef(cls, z3.Const(fresh_name(name), RefSort))

    def decl(self):
        d = ClassDecl.get(self.cls)
        if d is None:
            raise Unsupported(f"class {self.cls} not declared")
        return d

    def field_type(self, name):
        return self.decl().all_fields().get(name)

    def field_key(self, name):
        """Heap arrays are per (declaring class, field)."""
        d = self.decl()
        todo = [d]
        while todo:
            c = todo.pop(0)
            if name in c.fields:
                return f"{c.name}.{name}"
            todo += [ClassDecl.get(b) for b in c.bases if ClassDecl.get(b)]
        return f"{self.cls}.{name}"

    def py_truth(self, cx):
        return True

    def py_is_none(self, cx):
        return False

    def py_getattr(self, cx, name):
        ft = self.field_type(name)
        if ft is not None:
            if isinstance(ft, TMap):
                return SMapHeapView(cx, self, name, ft)  # dict fields keep reference semantics
            return ft.wrap(z3.Select(cx.heap_array(self.field_key(name), ft), self.t))
        return cx.lookup_attr(self, name)

    def py_setattr(self, cx, name, val):
        ft = self.field_type(name)
        if ft is None:
            raise Unsupported(f"assignment to undeclared field {self.cls}.{name}")
        key = self.field_key(name)
        arr = cx.heap_array(key, ft)
        cx.heap[key] = z3.Store(arr, self.t, ft.unwrap(cx, val))
        cx.note_write(("heap", key), self)

    def py_eq(self, cx, o):
        return cx.object_eq(self, o)

    def py_hash(self, cx):
        return cx.object_hash(self)

    def py_isinstance(self, cx, c):
        d = ClassDecl.get(self.cls)
        if d and d.is_subclass_of(c):
            return True
        return c == "object"

    def fresh_like(self, cx, hint="o"):
        return SRef.fresh(self.cls, hint)

    def same(self, cx, other):
        if isinstance(other, SRef):
            return self.t == other.t
        return z3.BoolVal(False)

    def __repr__(self):
        return f"SRef<{self.cls}>({self.t})"


class SObj(SVal):
    """Singleton-style object with python-level field dict (e.g. `self` of a manager class, a module)."""

    def __init__(self, cls: str, fields=None, name=None):
        self.cls, self.fields, self.name = cls, dict(fields or {}), name or cls

    def py_truth(self, cx):
        return True

    def py_getattr(self, cx, name):
        if name in self.fields:
            return self.fields[name]
        return cx.lookup_attr(self, name)

    def py_setattr(self, cx, name, val):
        self.fields[name] = val
        cx.note_write(("obj", self.name, name), self)

    def py_eq(self, cx, o):
        return cx.object_eq(self, o)

    def py_isinstance(self, cx, c):
        d = ClassDecl.get(self.cls)
        if d and d.is_subclass_of(c):
            return True
        return c in ("object", self.cls)

    def __repr__(self):
        return f"SObj<{self.cls}>"


# ----------------------------------------------------------------------------------------------
# sequences (python list / tuple-of-unknown-length) as z3 Seq


class SSeq(SVal):
    """python list: term of TSeq(elt).sort(); .n = length (clamped >= 0), .at_term(i) = element term."""

    pytype = "list"

    def __init__(self, elt: T, t):
        self.elt = elt
        self._t = t

    @property
    def t(self):
        return self._t

    @t.setter
    def t(self, v):
        self._t = v

    @property
    def ts(self):
        return TSeq(self.elt)

    @property
    def n(self):
        raw = z3.simplify(self.ts.f_len(self.t))
        if z3.is_int_value(raw):
            return raw
        return z3.If(raw < 0, 0, raw)

    @property
    def arr(self):
        return self.ts.f_arr(self.t)

    def at_term(self, i):
        return z3.Select(self.arr, i)

    def at(self, i):
        return self.elt.wrap(self.at_term(i))

    @staticmethod
    def fresh(elt, name):
        return SSeq(elt, z3.Const(fresh_name(name), TSeq(elt).sort()))

    @staticmethod
    def empty(elt):
        ts = TSeq(elt)
        return SSeq(elt, ts.mk(z3.IntVal(0), z3.Const(fresh_name("empty_arr"), z3.ArraySort(z3.IntSort(), elt.sort()))))

    def make(self, n, arr):
        return self.ts.mk(n, arr)

    def py_truth(self, cx):
        return self.n > 0

    def py_len(self, cx):
        return SInt(self.n)

    def contains_term(self, x_term, tag="m"):
        i = z3.Int(fresh_name(tag + "_i"))
        return z3.Exists([i], z3.And(0 <= i, i < self.n, self.at_term(i) == x_term))

    def ext_eq(self, other_seq, tag="e"):
        i = z3.Int(fresh_name(tag + "_i"))
        return z3.And(self.n == other_seq.n, z3.ForAll([i], z3.Implies(z3.And(0 <= i, i < self.n), self.at_term(i) == other_seq.at_term(i))))

    def py_getitem(self, cx, idx):
        n = self.n
        if isinstance(idx, SliceVal):
            if idx.step is not None:
                raise Unsupported("list slice with step")
            from .values import _norm_index

            lo_t = z3.IntVal(0) if idx.lo is None else _norm_index(term(idx.lo), n, clamp=True)
            hi_t = n if idx.hi is None else _norm_index(term(idx.hi), n, clamp=True)
            ln = z3.If(hi_t > lo_t, hi_t - lo_t, 0)
            k = z3.Int(fresh_name("sl_k"))
            return SSeq(self.elt, self.make(ln, z3.Lambda([k], self.at_term(k + lo_t))))
        i = term(idx)
        i_n = z3.If(i < 0, i + n, i)
        cx.decide_or_fail(z3.And(i_n >= 0, i_n < n), "IndexError", "list index out of range")
        return self.elt.wrap(self.at_term(i_n))

    def py_setitem(self, cx, idx, val):
        n = self.n
        i = term(idx)
        i_n = z3.If(i < 0, i + n, i)
        if not cx.decide(z3.And(i_n >= 0, i_n < n)):
            cx.py_raise("IndexError", "list assignment index out of range")
        self.t = self.make(n, z3.Store(self.arr, i_n, self.elt.unwrap(cx, val)))
        cx.note_write(("seq", id(self)), self)

    def py_contains(self, cx, item):
        # `x in list` compares with ==: for objects of a class with its own __eq__ (registered element equality) that is
        # its contract, not identity
        eqs = getattr(getattr(getattr(cx, "run", None), "interp", None), "registry", None)
        eq = getattr(eqs, "elem_eq", {}).get(getattr(self.elt, "cls", None)) if eqs is not None else None
        if eq is not None and isinstance(item, SRef):
            i = z3.Int(fresh_name("m_i"))
            return z3.Exists([i], z3.And(0 <= i, i < self.n, eq(cx, SRef(self.elt.cls, self.at_term(i)), item)))
        return self.contains_term(self.elt.unwrap(cx, item))

    def concat(self, cx, o):
        k = z3.Int(fresh_name("cc_k"))
        na = self.n
        return SSeq(self.elt, self.make(na + o.n, z3.Lambda([k], z3.If(k < na, self.at_term(k), o.at_term(k - na)))))

    def py_add(self, cx, o):
        if isinstance(o, (list, tuple)):
            if not o:
                return SSeq(self.elt, self.t)
            o = SSeq(self.elt, self.ts.unwrap(cx, o))
        if isinstance(o, SSeq):
            return self.concat(cx, o)
        raise Unsupported("list + non-list")

    def py_radd(self, cx, o):
        if isinstance(o, (list, tuple)):
            if not o:
                return SSeq(self.elt, self.t)
            return SSeq(self.elt, self.ts.unwrap(cx, o)).concat(cx, self)
        raise Unsupported("non-list + list")

    def py_eq(self, cx, o):
        if isinstance(o, (list, tuple)):
            o = SSeq(self.elt, self.ts.unwrap(cx, o))
        if isinstance(o, SSeq):
            return self.ext_eq(o)
        return False

    def py_isinstance(self, cx, c):
        return c in ("list", "object")

    def fresh_like(self, cx, hint="l"):
        return SSeq.fresh(self.elt, hint)

    def havoc_inplace(self, cx, hint="l"):
        self.t = z3.Const(fresh_name(hint), self.ts.sort())

    def snapshot(self):
        return SSeq(self.elt, self.t)

    def meth_append(self, cx, v):
        n = self.n
        self.t = self.make(n + 1, z3.Store(self.arr, n, self.elt.unwrap(cx, v)))
        cx.note_write(("seq", id(self)), self)
        return None

    def meth_copy(self, cx):
        return SSeq(self.elt, self.t)

    def meth_pop(self, cx, *idx):
        if idx:
            raise Unsupported("list.pop(i)")
        n = self.n
        cx.decide_or_fail(n > 0, "IndexError", "pop from empty list")
        v = self.elt.wrap(self.at_term(n - 1))
        self.t = self.make(n - 1, self.arr)
        cx.note_write(("seq", id(self)), self)
        return v

    def meth_sort(self, cx, key=None):
        """Trusted T4: list.sort() yields an ascending PERMUTATION (witnessed by a bijection on indices) —
        provided `<` on the elements is a strict weak order (a lemma of the property that uses it)."""
        old = self.snapshot()
        n = old.n
        new = SSeq(self.elt, self.make(n, z3.Const(fresh_name("sorted_arr"), z3.ArraySort(z3.IntSort(), self.elt.sort()))))
        pi = z3.Function(fresh_name("perm"), z3.IntSort(), z3.IntSort())
        pinv = z3.Function(fresh_name("perm_inv"), z3.IntSort(), z3.IntSort())
        i, j = z3.Int(fresh_name("si")), z3.Int(fresh_name("sj"))
        if key is not None:
            # key function evaluated on a generic element; it must be total on the list's elements
            x = z3.Const(fresh_name("sort_x"), self.elt.sort())
            kval, fails, axioms = cx.run.interp.eval_on_element(cx, key, self.elt.wrap(x), None)
            if not isinstance(kval, (int, SInt)):
                raise Unsupported("sort key is not an int")
            kt = term(kval)
            sub = lambda t, e: z3.substitute(t, (x, e))  # noqa: E731
            for exc, fc in fails:
                cx.oblige(f"sort-key-total:{exc}", "no-exception", z3.ForAll([i], z3.Implies(z3.And(0 <= i, i < n), z3.Not(sub(fc, old.at_term(i))))), clause="the sort key is defined for every element")
            for ax in axioms:
                cx.assume(z3.ForAll([i], z3.Implies(z3.And(0 <= i, i < n), sub(ax, old.at_term(i)))))
            cx.assume(z3.ForAll([i, j], z3.Implies(z3.And(0 <= i, i < j, j < n), sub(kt, new.at_term(i)) <= sub(kt, new.at_term(j)))))
            cx.ghost.setdefault("sort_keys", []).append((x, kt))
        else:
            lt = cx.run.registry.elem_lt(cx, self.elt)
            cx.assume(z3.ForAll([i, j], z3.Implies(z3.And(0 <= i, i < j, j < n), z3.Not(lt(cx, new.at(j), new.at(i))))))
        cx.assume(z3.ForAll([i], z3.Implies(z3.And(0 <= i, i < n), z3.And(0 <= pi(i), pi(i) < n, new.at_term(i) == old.at_term(pi(i)), pinv(pi(i)) == i))))
        cx.assume(z3.ForAll([i], z3.Implies(z3.And(0 <= i, i < n), z3.And(0 <= pinv(i), pinv(i) < n, pi(pinv(i)) == i, new.at_term(pinv(i)) == old.at_term(i)))))
        cx.ghost.setdefault("sorts", []).append((old, new, pi, pinv))
        self.t = new.t
        cx.note_write(("seq", id(self)), self)
        return None

    def same(self, cx, other):
        return as_bool(cx, self.py_eq(cx, other))

    def __repr__(self):
        return f"SSeq({self.t})"


class SSeqView(SSeq):
    """A list stored as a dict value: reads/writes go through the map (reference semantics)."""

    def __init__(self, m, kterm):
        self.m, self.k = m, kterm
        self.elt = m.vt.elt

    @property
    def t(self):
        return z3.Select(self.m.val, self.k)

    @t.setter
    def t(self, v):
        self.m.val = z3.Store(self.m.val, self.k, v)

    def snapshot(self):
        return SSeq(self.elt, self.t)


class SMap(SVal):
    """dict: dom: K -> Bool, val: K -> V.  Iteration order is arbitrary."""

    pytype = "dict"

    def __init__(self, kt: T, vt: T, dom=None, val=None, name="d"):
        self.kt, self.vt = kt, vt
        self.dom = dom if dom is not None else z3.K(kt.sort(), z3.BoolVal(False))
        self.val = val if val is not None else z3.Const(fresh_name(name + "_val0"), z3.ArraySort(kt.sort(), vt.sort()))

    @staticmethod
    def fresh(kt, vt, name):
        return SMap(kt, vt, z3.Const(fresh_name(name + "_dom"), z3.ArraySort(kt.sort(), z3.BoolSort())), z3.Const(fresh_name(name + "_val"), z3.ArraySort(kt.sort(), vt.sort())))

    def has(self, k_term):
        return z3.Select(self.dom, k_term)

    def get_term(self, k_term):
        return z3.Select(self.val, k_term)

    def py_truth(self, cx):
        k = z3.Const(fresh_name("k_ne"), self.kt.sort())
        return z3.Exists([k], z3.Select(self.dom, k))

    def py_contains(self, cx, k):
        return z3.Select(self.dom, self.kt.unwrap(cx, k))

    def py_getitem(self, cx, k):
        kt = self.kt.unwrap(cx, k)
        cx.decide_or_fail(z3.Select(self.dom, kt), "KeyError", "missing key")
        return self._wrap_at(kt)

    def _wrap_at(self, kt):
        if isinstance(self.vt, TSetT):
            return SSetView(self, kt)  # sets inside dicts keep reference semantics
        if isinstance(self.vt, TSeq):
            return SSeqView(self, kt)  # lists inside dicts keep reference semantics
        return self.vt.wrap(z3.Select(self.val, kt))

    def py_setitem(self, cx, k, v):
        kt = self.kt.unwrap(cx, k)
        self.dom = z3.Store(self.dom, kt, z3.BoolVal(True))
        self.val = z3.Store(self.val, kt, self.vt.unwrap(cx, v))
        cx.note_write(("map", id(self)), self)

    def py_delitem(self, cx, k):
        kt = self.kt.unwrap(cx, k)
        if not cx.decide(z3.Select(self.dom, kt)):
            cx.py_raise("KeyError", "missing key")
        self.dom = z3.Store(self.dom, kt, z3.BoolVal(False))
        cx.note_write(("map", id(self)), self)

    def meth_get(self, cx, k, default=None):
        kt = self.kt.unwrap(cx, k)
        if cx.decide(z3.Select(self.dom, kt)):
            return self._wrap_at(kt)
        return default

    def meth_pop(self, cx, k, *default):
        kt = self.kt.unwrap(cx, k)
        if cx.decide(z3.Select(self.dom, kt)):
            v = self.vt.wrap(z3.Select(self.val, kt))
            self.dom = z3.Store(self.dom, kt, z3.BoolVal(False))
            cx.note_write(("map", id(self)), self)
            return v
        if default:
            return default[0]
        cx.py_raise("KeyError", "pop missing key")

    def meth_keys(self, cx):
        return SSet(self.kt, self.dom)

    def meth_setdefault(self, cx, k, default=None):
        kt = self.kt.unwrap(cx, k)
        if not cx.decide(z3.Select(self.dom, kt)):
            self.dom = z3.Store(self.dom, kt, z3.BoolVal(True))
            self.val = z3.Store(self.val, kt, self.vt.unwrap(cx, default))
            cx.note_write(("map", id(self)), self)
        return self._wrap_at(kt)

    def meth_items(self, cx):
        return MapItems(self)

    def meth_values(self, cx):
        return MapValues(self)

    def meth_copy(self, cx):
        return SMap(self.kt, self.vt, self.dom, self.val)

    def py_iter_schema(self, cx):
        return SetIter(self.kt, self.dom, lambda kterm: self.kt.wrap(kterm))

    def py_isinstance(self, cx, c):
        return c in ("dict", "object")

    def havoc_inplace(self, cx, hint="d"):
        self.dom = z3.Const(fresh_name(hint + "_dom"), z3.ArraySort(self.kt.sort(), z3.BoolSort()))
        self.val = z3.Const(fresh_name(hint + "_val"), z3.ArraySort(self.kt.sort(), self.vt.sort()))

    def snapshot(self):
        return SMap(self.kt, self.vt, self.dom, self.val)

    def same(self, cx, other):
        k = z3.Const(fresh_name("k_same"), self.kt.sort())
        return z3.ForAll([k], z3.And(z3.Select(self.dom, k) == z3.Select(other.dom, k), z3.Implies(z3.Select(self.dom, k), z3.Select(self.val, k) == z3.Select(other.val, k))))

    def __repr__(self):
        return "SMap(..)"


class SMapHeapView(SMap):
    """A dict stored in a heap field of an object: reads/writes go through the heap array."""

    def __init__(self, cx, ref, field, ft):
        self.cx, self.ref, self.field, self.ft = cx, ref, field, ft
        self.kt, self.vt = ft.kt, ft.vt
        self.key = ref.field_key(field)

    def _cur(self):
        return z3.Select(self.cx.heap_array(self.key, self.ft), self.ref.t)

    def _store(self, dom, val):
        arr = self.cx.heap_array(self.key, self.ft)
        self.cx.heap[self.key] = z3.Store(arr, self.ref.t, self.ft.mk(dom, val))

    @property
    def dom(self):
        return self.ft.f_dom(self._cur())

    @dom.setter
    def dom(self, v):
        self._store(v, self.ft.f_val(self._cur()))

    @property
    def val(self):
        return self.ft.f_val(self._cur())

    @val.setter
    def val(self, v):
        self._store(self.ft.f_dom(self._cur()), v)

    def snapshot(self):
        return SMap(self.kt, self.vt, self.dom, self.val)


class MapItems(SVal):
    def __init__(self, m: SMap):
        self.m = m

    def py_iter_schema(self, cx):
        m = self.m
        return SetIter(m.kt, m.dom, lambda kterm: STuple((m.kt.wrap(kterm), m.vt.wrap(z3.Select(m.val, kterm)))))


class MapValues(SVal):
    def __init__(self, m: SMap):
        self.m = m

    def py_iter_schema(self, cx):
        m = self.m
        return SetIter(m.kt, m.dom, lambda kterm: m.vt.wrap(z3.Select(m.val, kterm)))


class SSet(SVal):
    pytype = "set"

    def __init__(self, kt: T, dom=None):
        self.kt = kt
        self.dom = dom if dom is not None else z3.K(kt.sort(), z3.BoolVal(False))

    @staticmethod
    def fresh(kt, name):
        return SSet(kt, z3.Const(fresh_name(name), z3.ArraySort(kt.sort(), z3.BoolSort())))

    def has(self, k_term):
        return z3.Select(self.dom, k_term)

    def py_truth(self, cx):
        k = z3.Const(fresh_name("k_ne"), self.kt.sort())
        return z3.Exists([k], z3.Select(self.dom, k))

    def py_contains(self, cx, k):
        return z3.Select(self.dom, self.kt.unwrap(cx, k))

    def _lam(self, f):
        k = z3.Const(fresh_name("k_l"), self.kt.sort())
        return z3.Lambda([k], f(k))

    def py_sub(self, cx, o):
        if not isinstance(o, SSet):
            raise Unsupported("set - non-set")
        return SSet(self.kt, self._lam(lambda k: z3.And(z3.Select(self.dom, k), z3.Not(z3.Select(o.dom, k)))))

    def py_or(self, cx, o):
        if not isinstance(o, SSet):
            raise Unsupported("set | non-set")
        return SSet(self.kt, self._lam(lambda k: z3.Or(z3.Select(self.dom, k), z3.Select(o.dom, k))))

    def py_and(self, cx, o):
        return SSet(self.kt, self._lam(lambda k: z3.And(z3.Select(self.dom, k), z3.Select(o.dom, k))))

    def meth_union(self, cx, o):
        return self.py_or(cx, o)

    def meth_intersection(self, cx, o):
        if not isinstance(o, SSet):
            raise Unsupported("set.intersection with a non-set")
        return self.py_and(cx, o)

    def meth_difference(self, cx, o):
        return self.py_sub(cx, o)

    def meth_add(self, cx, k):
        self.dom = z3.Store(self.dom, self.kt.unwrap(cx, k), z3.BoolVal(True))
        cx.note_write(("set", id(self)), self)

    def meth_discard(self, cx, k):
        self.dom = z3.Store(self.dom, self.kt.unwrap(cx, k), z3.BoolVal(False))
        cx.note_write(("set", id(self)), self)

    def meth_remove(self, cx, k):
        kt = self.kt.unwrap(cx, k)
        cx.decide_or_fail(z3.Select(self.dom, kt), "KeyError", "set.remove of a missing element")
        self.dom = z3.Store(self.dom, kt, z3.BoolVal(False))
        cx.note_write(("set", id(self)), self)

    def py_iter_schema(self, cx):
        return SetIter(self.kt, self.dom, lambda kterm: self.kt.wrap(kterm))

    def py_len(self, cx):
        card = getattr(self, "card", None)
        if card is None:
            # python sets are finite: the cardinality is a non-negative integer that is 0 exactly for the empty set
            # (nothing else about it is known unless the spec supplies a cardinality model)
            srt = z3.ArraySort(self.kt.sort(), z3.BoolSort())
            f = z3.Function("set_card_" + str(self.kt.sort()).replace(" ", "_").replace("(", "").replace(")", ""), srt, z3.IntSort())
            n = f(self.dom)
            k = z3.Const(fresh_name("k_card"), self.kt.sort())
            cx.assume(z3.And(n >= 0, (n == 0) == z3.Not(z3.Exists([k], z3.Select(self.dom, k)))))
            return SInt(n)
        return SInt(card)

    def py_eq(self, cx, o):
        if isinstance(o, SSet):
            k = z3.Const(fresh_name("k_eq"), self.kt.sort())
            return z3.ForAll([k], z3.Select(self.dom, k) == z3.Select(o.dom, k))
        return False

    def py_isinstance(self, cx, c):
        return c in ("set", "object")

    def havoc_inplace(self, cx, hint="s"):
        self.dom = z3.Const(fresh_name(hint), z3.ArraySort(self.kt.sort(), z3.BoolSort()))

    def snapshot(self):
        return SSet(self.kt, self.dom)

    def same(self, cx, other):
        return as_bool(cx, self.py_eq(cx, other))


class SSetView(SSet):
    """A set stored as a dict value: reads/writes go through the map."""

    def __init__(self, m, kterm):
        self.m, self.k = m, kterm
        self.kt = m.vt.kt

    @property
    def dom(self):
        return z3.Select(self.m.val, self.k)

    @dom.setter
    def dom(self, v):
        self.m.val = z3.Store(self.m.val, self.k, v)

    def snapshot(self):
        return SSet(self.kt, self.dom)


class SetIter:
    """Iteration schema over a set given by its characteristic array (arbitrary order, each element once)."""

    kind = "set"

    def __init__(self, kt: T, dom, mk_elem):
        self.kt, self.dom, self.mk_elem = kt, dom, mk_elem


class RangeIter:
    """Iteration schema for range(lo, hi) ascending or descending (reversed(range))."""

    kind = "range"

    def __init__(self, lo, hi, descending=False):
        self.lo, self.hi, self.descending = lo, hi, descending


class SeqIter:
    kind = "seq"

    def __init__(self, seq: SSeq):
        self.seq = seq


class SRange(SVal):
    def __init__(self, lo, hi, descending=False):
        self.lo, self.hi, self.descending = lo, hi, descending

    def py_iter_schema(self, cx):
        return RangeIter(self.lo, self.hi, self.descending)

    def concrete_list(self):
        lo, hi = self.lo, self.hi
        if isinstance(lo, SInt):
            v = z3.simplify(lo.t)
            lo = v.as_long() if z3.is_int_value(v) else None
        if isinstance(hi, SInt):
            v = z3.simplify(hi.t)
            hi = v.as_long() if z3.is_int_value(v) else None
        if isinstance(lo, int) and isinstance(hi, int):
            r = list(range(lo, hi))
            return list(reversed(r)) if self.descending else r
        return None
