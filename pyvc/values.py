"""Symbolic value library of pyvc.

Concrete Python values (int, bool, str, None, tuple, ...) stay native; anything symbolic is an `SVal`.
Every operation the interpreter performs on a value is dispatched to a `py_*` method here, so the
Python semantics assumed by the encoding is in one place:

* int is mathematical (z3 Int) — exact, Python ints are unbounded;
* str is a z3 String (sequence of code points; comparison = lexicographic by code point, as in Python);
* `a or b` / `a and b` return operands, truthiness per type (0, "", empty containers, None are falsy);
* tuple comparison is lexicographic; `==` on tuples is component-wise;
* dict / set iteration order is arbitrary (unless the code sorts) — a sound over-approximation.
"""
from __future__ import annotations

import itertools

import z3

_counter = itertools.count()


def reset_counter():
    global _counter
    _counter = itertools.count()


def fresh_name(base: str) -> str:
    return f"{base}!{next(_counter)}"


class Unsupported(Exception):
    """Construct outside the supported subset: the function is reported engine-unsupported (undecided)."""


class SVal:
    """Base class of symbolic values."""

    pytype = "object"

    # --- protocol with defaults -------------------------------------------------
    def py_truth(self, cx):
        raise Unsupported(f"truthiness of {type(self).__name__}")

    def py_eq(self, cx, other):
        raise Unsupported(f"== on {type(self).__name__}")

    def py_ne(self, cx, other):
        return z3.Not(as_bool(cx, self.py_eq(cx, other)))

    def py_is_none(self, cx):
        return False

    def py_isinstance(self, cx, clsname: str):
        return clsname == "object" or clsname == getattr(self, "pytype", None) or clsname == type(self).__name__

    def py_getattr(self, cx, name):
        m = getattr(self, "attr_" + name, None)
        if m is not None:
            return m(cx)
        if hasattr(self, "meth_" + name):
            return BoundMethod(self, name)
        raise Unsupported(f"attribute .{name} on {type(self).__name__}")

    def py_call_method(self, cx, name, args, kwargs):
        m = getattr(self, "meth_" + name, None)
        if m is None:
            raise Unsupported(f"method .{name}() on {type(self).__name__}")
        return m(cx, *args, **kwargs)

    def fresh_like(self, cx, hint="h"):
        raise Unsupported(f"havoc of {type(self).__name__}")

    def same(self, cx, other):
        """z3 Bool: this value equals other (used for frame obligations)."""
        return as_bool(cx, self.py_eq(cx, other))


class BoundMethod:
    def __init__(self, recv, name):
        self.recv, self.name = recv, name


# ----------------------------------------------------------------------------------------------
# helpers


def is_sym(v) -> bool:
    return isinstance(v, SVal)


def lift(v):
    """Concrete python value -> symbolic value of the fitting class (idempotent)."""
    if isinstance(v, SVal):
        return v
    if isinstance(v, bool):
        return SBool(z3.BoolVal(v))
    if isinstance(v, int):
        return SInt(z3.IntVal(v))
    if isinstance(v, str):
        return SStr(z3.StringVal(v))
    if isinstance(v, tuple):
        return STuple(tuple(v))
    raise Unsupported(f"cannot lift {type(v).__name__}")


def as_bool(cx, b):
    """Python bool / z3 Bool / SBool -> z3 Bool."""
    if isinstance(b, bool):
        return z3.BoolVal(b)
    if isinstance(b, SBool):
        return b.t
    if z3.is_bool(b):
        return b
    raise Unsupported(f"not a boolean: {b!r}")


def truth(cx, v):
    """Truthiness as python bool (concrete) or z3 Bool."""
    if isinstance(v, SVal):
        return v.py_truth(cx)
    if z3.is_bool(v):
        return v
    return bool(v)


def term(v):
    if isinstance(v, (SInt, SBool, SStr)):
        return v.t
    if isinstance(v, bool):
        return z3.BoolVal(v)
    if isinstance(v, int):
        return z3.IntVal(v)
    if isinstance(v, str):
        return z3.StringVal(v)
    raise Unsupported(f"no scalar term for {v!r}")


# ----------------------------------------------------------------------------------------------
# scalars


class SBool(SVal):
    pytype = "bool"

    def __init__(self, t):
        self.t = t

    def py_truth(self, cx):
        return self.t

    def py_eq(self, cx, o):
        if isinstance(o, (bool, SBool)):
            return self.t == term(o)
        if o is None:
            return False
        if isinstance(o, (int, SInt)):
            return z3.If(self.t, 1, 0) == term(o)
        return False

    def py_isinstance(self, cx, c):
        return c in ("bool", "int", "object")

    def fresh_like(self, cx, hint="b"):
        return SBool(z3.Bool(fresh_name(hint)))

    def __repr__(self):
        return f"SBool({self.t})"


class SInt(SVal):
    pytype = "int"

    def __init__(self, t):
        self.t = t

    @staticmethod
    def fresh(name):
        return SInt(z3.Int(fresh_name(name)))

    def py_truth(self, cx):
        return self.t != 0

    def py_eq(self, cx, o):
        if isinstance(o, bool):
            return self.t == (1 if o else 0)
        if isinstance(o, (int, SInt)):
            return self.t == term(o)
        if isinstance(o, SBool):
            return self.t == z3.If(o.t, 1, 0)
        if isinstance(o, SMaybe):
            return o.py_eq(cx, self)
        return False

    def _cmp(self, cx, op, o):
        if isinstance(o, SMaybe):
            o = o.force(cx, "TypeError")
        if not isinstance(o, (int, SInt)) or isinstance(o, bool) and False:
            raise Unsupported(f"int {op} {type(o).__name__}")
        a, b = self.t, term(o)
        return {"<": a < b, "<=": a <= b, ">": a > b, ">=": a >= b}[op]

    def py_lt(self, cx, o):
        return self._cmp(cx, "<", o)

    def py_le(self, cx, o):
        return self._cmp(cx, "<=", o)

    def py_gt(self, cx, o):
        return self._cmp(cx, ">", o)

    def py_ge(self, cx, o):
        return self._cmp(cx, ">=", o)

    def py_add(self, cx, o):
        if isinstance(o, (int, SInt)):
            return SInt(self.t + term(o))
        raise Unsupported("int + non-int")

    py_radd = py_add

    def py_sub(self, cx, o):
        return SInt(self.t - term(o))

    def py_rsub(self, cx, o):
        return SInt(term(o) - self.t)

    def py_mul(self, cx, o):
        return SInt(self.t * term(o))

    py_rmul = py_mul

    def py_neg(self, cx):
        return SInt(-self.t)

    def py_hash(self, cx):
        return SInt(z3.Function("hash_int", z3.IntSort(), z3.IntSort())(self.t))

    def py_isinstance(self, cx, c):
        return c in ("int", "object")

    def fresh_like(self, cx, hint="i"):
        return SInt.fresh(hint)

    def __repr__(self):
        return f"SInt({self.t})"


class SStr(SVal):
    pytype = "str"

    def __init__(self, t):
        self.t = t

    @staticmethod
    def fresh(name):
        return SStr(z3.String(fresh_name(name)))

    def py_truth(self, cx):
        return z3.Length(self.t) > 0

    def py_eq(self, cx, o):
        if isinstance(o, (str, SStr)):
            return self.t == term(o)
        if isinstance(o, SMaybe):
            return o.py_eq(cx, self)
        return False

    def _cmp(self, cx, op, o):
        if not isinstance(o, (str, SStr)):
            raise Unsupported(f"str {op} {type(o).__name__}")
        a, b = self.t, term(o)
        # z3: a < b is str.<, a <= b is str.<= (lexicographic by code point)
        return {"<": a < b, "<=": a <= b, ">": b < a, ">=": b <= a}[op]

    def py_lt(self, cx, o):
        return self._cmp(cx, "<", o)

    def py_le(self, cx, o):
        return self._cmp(cx, "<=", o)

    def py_gt(self, cx, o):
        return self._cmp(cx, ">", o)

    def py_ge(self, cx, o):
        return self._cmp(cx, ">=", o)

    def py_add(self, cx, o):
        if isinstance(o, (str, SStr)):
            return SStr(z3.Concat(self.t, term(o)))
        raise Unsupported("str + non-str")

    def py_radd(self, cx, o):
        return SStr(z3.Concat(term(o), self.t))

    def py_len(self, cx):
        return SInt(z3.Length(self.t))

    def py_contains(self, cx, o):
        return z3.Contains(self.t, term(o))

    def py_hash(self, cx):
        return SInt(z3.Function("hash_str", z3.StringSort(), z3.IntSort())(self.t))

    def py_getitem(self, cx, idx):
        n = z3.Length(self.t)
        if isinstance(idx, SliceVal):
            lo, hi = idx.lo, idx.hi
            if idx.step is not None:
                raise Unsupported("str slice with step")
            lo_t = z3.IntVal(0) if lo is None else _norm_index(term(lo), n, clamp=True)
            hi_t = n if hi is None else _norm_index(term(hi), n, clamp=True)
            ln = z3.If(hi_t > lo_t, hi_t - lo_t, 0)
            return SStr(z3.SubString(self.t, lo_t, ln))
        i = term(idx)
        i_n = z3.If(i < 0, i + n, i)
        if not cx.decide(z3.And(i_n >= 0, i_n < n)):
            cx.py_raise("IndexError", "string index out of range")
        return SStr(z3.SubString(self.t, i_n, 1))

    def py_isinstance(self, cx, c):
        return c in ("str", "object")

    def fresh_like(self, cx, hint="s"):
        return SStr.fresh(hint)

    # methods
    def meth_startswith(self, cx, p):
        return SBool(z3.PrefixOf(term(p), self.t))

    def meth_endswith(self, cx, p):
        return SBool(z3.SuffixOf(term(p), self.t))

    def meth_find(self, cx, p):
        return SInt(z3.IndexOf(self.t, term(p), 0))

    def meth_rstrip(self, cx, chars=None):
        if not isinstance(chars, str) or len(chars) != 1:
            raise Unsupported("str.rstrip() except for a single given character")
        # result r: s == r ++ chars^k for some k >= 0 and r does not end with chars
        r = z3.String(fresh_name("rstripped"))
        c = z3.StringVal(chars)
        tail = z3.SubString(self.t, z3.Length(r), z3.Length(self.t) - z3.Length(r))
        cx.assume(z3.And(z3.PrefixOf(r, self.t), z3.InRe(tail, z3.Star(z3.Re(c))), z3.Not(z3.SuffixOf(c, r))))
        return SStr(r)

    def meth_encode(self, cx, *a, encoding=None, errors=None):
        return self  # bytes modelled as the same code-point sequence (ASCII/UTF-8 payloads only)

    def meth_split(self, cx, sep=None, maxsplit=-1):
        if sep is None or maxsplit != -1:
            raise Unsupported("str.split without separator / with maxsplit")
        return SplitVal(self.t, term(sep))

    def meth_lstrip(self, cx, chars=None):
        if not isinstance(chars, str) or len(chars) != 1:
            raise Unsupported("str.lstrip() except for a single given character")
        # result s[k:]: the first k characters are all `chars`, the next one (if any) is not
        k = z3.Int(fresh_name("lstrip_k"))
        c = z3.StringVal(chars)
        n = z3.Length(self.t)
        cx.assume(z3.And(0 <= k, k <= n, z3.InRe(z3.SubString(self.t, 0, k), z3.Star(z3.Re(c))), z3.Or(k == n, z3.SubString(self.t, k, 1) != c)))
        return SStr(z3.SubString(self.t, k, n - k))

    def meth_strip(self, cx, chars=None):
        if not isinstance(chars, str):
            raise Unsupported("str.strip() of symbolic chars / whitespace")
        f = z3.Function("str_strip_" + "_".join(str(ord(c)) for c in chars), z3.StringSort(), z3.StringSort())
        return SStr(f(self.t))  # opaque spec function (only equal inputs give equal outputs)

    def __repr__(self):
        return f"SStr({self.t})"


def _norm_index(i, n, clamp=False):
    j = z3.If(i < 0, i + n, i)
    if clamp:
        j = z3.If(j < 0, 0, z3.If(j > n, n, j))
    return j


class SplitVal(SVal):
    """s.split(sep): parts 0..2 and the last part are available, len() is exact up to 3 (">3" is some larger number).
    As a list it supports what path code does with it: replace the last part, append parts, pop the last part once,
    compare with a concrete list, and be joined again by the same separator."""

    def __init__(self, s, sep):
        self.s, self.sep = s, sep
        L = z3.Length(sep)
        self.i1 = z3.IndexOf(s, sep, 0)
        self.i2 = z3.IndexOf(s, sep, self.i1 + L)
        self.i3 = z3.IndexOf(s, sep, self.i2 + L)
        self.L = L
        self._last = None  # the original last part (fresh constant, characterised once)
        self.last_new = None  # value assigned to [-1]
        self.extra = []  # appended parts
        self.popped = False

    def _orig_last(self, cx):
        if self._last is None:
            # the last part p: a suffix without the separator that is the whole string or preceded by the separator
            # (unique for a non-empty separator; stated without seq.last_indexof, which only z3 knows)
            s, sep, L, n = self.s, self.sep, self.L, z3.Length(self.s)
            p = z3.String(fresh_name("last_part"))
            lp = z3.Length(p)
            cx.assume(z3.And(z3.SuffixOf(p, s), z3.Not(z3.Contains(p, sep)), z3.Or(lp == n, z3.And(n - lp - L >= 0, z3.SubString(s, n - lp - L, L) == sep))))
            self._last = p
        return self._last

    def _plain(self, what):
        if self.popped or self.extra:
            raise Unsupported(f"{what} of a split list after pop()/append()")

    def meth_pop(self, cx, *idx):
        """segs.pop(): the last part; afterwards the list can only be joined."""
        if idx:
            raise Unsupported("split(...).pop(i)")
        self._plain("pop()")
        v = self.py_getitem(cx, -1)
        cx.decide_or_fail(z3.BoolVal(True), "IndexError", "")  # a split list is never empty
        self.popped = True
        h = cx.ghost.get("hint_last_part")
        if h is not None:  # an intermediate lemma of the spec about this value: proved here, then used
            fact = h(v.t)
            cx.oblige("hint:last-part", "hint", fact, clause="intermediate lemma (proof hint)")
            cx.assume(fact)
        return v

    def meth_append(self, cx, v):
        if self.popped:
            raise Unsupported("append after pop() on a split list")
        self.extra.append(term(v))

    def py_setitem(self, cx, idx, v):
        if idx != -1:
            raise Unsupported("assignment to another part of a split list than the last")
        self._plain("item assignment")
        self._orig_last(cx)
        self.last_new = term(v)

    def py_eq(self, cx, other):
        """segs == [..concrete parts..]: the string is exactly those parts joined (parts without the separator)"""
        if isinstance(other, SplitVal):
            raise Unsupported("comparison of two split lists")
        if not isinstance(other, (list, tuple)) or not all(isinstance(x, str) for x in other):
            raise Unsupported("comparison of a split list with a symbolic list")
        if self.popped and not self.extra and 1 <= len(other) <= 2:
            # parts[:-1] == L: there is exactly one part more than in L, and the parts before the last are L
            sepv = z3.simplify(self.sep)
            if not z3.is_string_value(sepv) or any(sepv.as_string() in x for x in other):
                return z3.BoolVal(False)
            n_parts = z3.If(self.i1 < 0, 1, z3.If(self.i2 < 0, 2, z3.If(self.i3 < 0, 3, 4)))
            p = self._orig_last(cx)
            head = z3.SubString(self.s, 0, z3.Length(self.s) - z3.Length(p))
            return z3.And(n_parts == len(other) + 1, head == z3.StringVal(sepv.as_string().join(other) + sepv.as_string()))
        self._plain("comparison")
        if self.last_new is not None:
            raise Unsupported("comparison of a split list after item assignment")
        sepv = z3.simplify(self.sep)
        if not z3.is_string_value(sepv) or any(sepv.as_string() in x for x in other) or not other:
            return False if not other else z3.BoolVal(False)
        return self.s == z3.StringVal(sepv.as_string().join(other))

    def py_joined_by(self, cx, sep):
        sv = z3.simplify(self.sep)
        if not (isinstance(sep, str) and z3.is_string_value(sv) and sv.as_string() == sep):
            raise Unsupported("join of a split list by another separator")
        s, L, n = self.s, self.L, z3.Length(self.s)
        if self.last_new is None and not self.extra and not self.popped:
            return SStr(s)
        p = self._orig_last(cx)
        head = z3.SubString(s, 0, n - z3.Length(p))  # everything before the last part (ends with the separator, or is empty)
        if self.popped:
            return SStr(z3.If(z3.Length(head) == 0, z3.StringVal(""), z3.SubString(head, 0, z3.Length(head) - L)))
        parts = [head, self.last_new if self.last_new is not None else p]
        for x in self.extra:
            parts += [self.sep, x]
        return SStr(z3.Concat(*parts))

    def py_len(self, cx):
        self._plain("len()")
        more = z3.Int(fresh_name("split_more"))
        cx.assume(more >= 4)
        return SInt(z3.If(self.i1 < 0, 1, z3.If(self.i2 < 0, 2, z3.If(self.i3 < 0, 3, more))))

    def py_getitem(self, cx, idx):
        if isinstance(idx, SliceVal):
            if idx.lo is None and idx.hi == -1 and idx.step is None:  # segs[:-1]: all parts but the last
                self._plain("slicing")
                if self.last_new is not None:
                    raise Unsupported("slicing of a split list after item assignment")
                c = SplitVal(self.s, self.sep)
                c._last = self._orig_last(cx)
                c.popped = True
                return c
            if idx.lo == 1 and idx.hi is None and idx.step is None:  # segs[1:]: all parts but the first (only to be joined again)
                self._plain("slicing")
                if self.last_new is not None:
                    raise Unsupported("slicing of a split list after item assignment")
                return SplitTail(self)
            raise Unsupported("another slice of a split list than [:-1] / [1:]")
        self._plain("subscription")
        s, sep, L = self.s, self.sep, self.L
        n = z3.Length(s)
        if idx == -1:
            return SStr(self.last_new if self.last_new is not None else self._orig_last(cx))
        if self.last_new is not None and idx != 0:
            raise Unsupported("middle parts of a split list after item assignment")
        if idx == 0:
            whole = self.last_new if self.last_new is not None else s  # a single part is also the last one
            return SStr(z3.If(self.i1 < 0, whole, z3.SubString(s, 0, self.i1)))
        if idx == 1:
            cx.decide_or_fail(self.i1 >= 0, "IndexError", "list index out of range")
            st = self.i1 + L
            return SStr(z3.If(self.i2 < 0, z3.SubString(s, st, n - st), z3.SubString(s, st, self.i2 - st)))
        if idx == 2:
            cx.decide_or_fail(z3.And(self.i1 >= 0, self.i2 >= 0), "IndexError", "list index out of range")
            st = self.i2 + L
            return SStr(z3.If(self.i3 < 0, z3.SubString(s, st, n - st), z3.SubString(s, st, self.i3 - st)))
        raise Unsupported("str.split(...)[i] for i > 2")


class SplitTail(SVal):
    """s.split(sep)[1:]: joined by the same separator it is what follows the first separator (nothing if there is none)"""

    def __init__(self, sv):
        self.sv = sv

    def py_joined_by(self, cx, sep):
        v = self.sv
        sepv = z3.simplify(v.sep)
        if not (isinstance(sep, str) and z3.is_string_value(sepv) and sepv.as_string() == sep):
            raise Unsupported("join of a split list by another separator")
        n, st = z3.Length(v.s), v.i1 + v.L
        return SStr(z3.If(v.i1 < 0, z3.StringVal(""), z3.SubString(v.s, st, n - st)))


class SliceVal:
    def __init__(self, lo, hi, step=None):
        self.lo, self.hi, self.step = lo, hi, step


# ----------------------------------------------------------------------------------------------
# tuples (python tuple of values), optional values


class STuple(SVal):
    pytype = "tuple"

    def __init__(self, items):
        self.items = tuple(items)

    def py_truth(self, cx):
        return len(self.items) > 0

    def py_len(self, cx):
        return len(self.items)

    def py_getitem(self, cx, idx):
        if isinstance(idx, SInt):
            v = z3.simplify(idx.t)
            if z3.is_int_value(v):
                idx = v.as_long()
        if isinstance(idx, int):
            try:
                return self.items[idx]
            except IndexError:
                cx.py_raise("IndexError", "tuple index out of range")
        raise Unsupported("tuple[symbolic]")

    def py_iter_concrete(self, cx):
        return list(self.items)

    def py_eq(self, cx, o):
        if isinstance(o, tuple):
            o = STuple(o)
        if isinstance(o, SMaybe):
            return o.py_eq(cx, self)
        if not isinstance(o, STuple) or len(o.items) != len(self.items):
            return False
        cs = [as_bool(cx, v_eq(cx, a, b)) for a, b in zip(self.items, o.items)]
        return z3.And(*cs) if cs else True

    def _lex(self, cx, o, strict_op, final):
        """Lexicographic comparison: final in {'<','<=','>','>='}."""
        if isinstance(o, tuple):
            o = STuple(o)
        if not isinstance(o, STuple):
            raise Unsupported("tuple compare with non-tuple")
        a, b = self.items, o.items
        if len(a) != len(b):
            raise Unsupported("tuple compare with different lengths")
        res = z3.BoolVal(final in ("<=", ">="))
        for x, y in reversed(list(zip(a, b))):
            eq = as_bool(cx, v_eq(cx, x, y))
            st = as_bool(cx, v_cmp(cx, strict_op, x, y))
            res = z3.If(eq, res, st)
        return res

    def py_lt(self, cx, o):
        return self._lex(cx, o, "<", "<")

    def py_le(self, cx, o):
        return self._lex(cx, o, "<", "<=")

    def py_gt(self, cx, o):
        return self._lex(cx, o, ">", ">")

    def py_ge(self, cx, o):
        return self._lex(cx, o, ">", ">=")

    def py_hash(self, cx):
        hs = [term(v_hash(cx, x)) for x in self.items]
        f = z3.Function(f"hash_tuple{len(hs)}", *([z3.IntSort()] * (len(hs) + 1)))
        return SInt(f(*hs))

    def py_isinstance(self, cx, c):
        return c in ("tuple", "object")

    def same(self, cx, other):
        return as_bool(cx, self.py_eq(cx, other))

    def __repr__(self):
        return f"STuple{self.items}"


class SMaybe(SVal):
    """Optional value: None iff `isnone`, else `val`."""

    def __init__(self, isnone, val):
        self.isnone, self.val = isnone, val

    def force(self, cx, exc="TypeError"):
        """Fork: on the None side raise `exc` (python would fail on None), else return the payload."""
        if cx.decide(self.isnone):
            cx.py_raise(exc, "operation on None")
        return self.val

    def resolve(self, cx):
        """Fork into None / payload."""
        if cx.decide(self.isnone):
            return None
        return self.val

    def py_is_none(self, cx):
        return self.isnone

    def py_truth(self, cx):
        return z3.And(z3.Not(self.isnone), as_bool(cx, truth(cx, self.val)))

    def py_eq(self, cx, o):
        if o is None:
            return self.isnone
        if isinstance(o, SMaybe):
            return z3.Or(z3.And(self.isnone, o.isnone), z3.And(z3.Not(self.isnone), z3.Not(o.isnone), as_bool(cx, v_eq(cx, self.val, o.val))))
        return z3.And(z3.Not(self.isnone), as_bool(cx, v_eq(cx, self.val, o)))

    def py_isinstance(self, cx, c):
        v = self.resolve(cx)
        return v_isinstance(cx, v, c)

    def py_getattr(self, cx, name):
        return v_getattr(cx, self.force(cx, "AttributeError"), name)

    def py_getitem(self, cx, idx):
        return v_getitem(cx, self.force(cx, "TypeError"), idx)

    def py_contains(self, cx, item):
        return v_contains(cx, self.force(cx, "TypeError"), item)  # `x in None` is a TypeError

    def py_hash(self, cx):
        v = self.resolve(cx)
        return v_hash(cx, v)

    def fresh_like(self, cx, hint="m"):
        return SMaybe(z3.Bool(fresh_name(hint + "_isnone")), self.val.fresh_like(cx, hint))

    def same(self, cx, other):
        return as_bool(cx, self.py_eq(cx, other))

    def __repr__(self):
        return f"SMaybe({self.isnone}, {self.val})"


# ----------------------------------------------------------------------------------------------
# generic value operations used by the interpreter


def v_eq(cx, a, b):
    if a is None or b is None:
        if a is None and b is None:
            return True
        o = b if a is None else a
        if isinstance(o, SVal):
            return o.py_is_none(cx)
        return False
    if not is_sym(a) and not is_sym(b):
        return a == b
    if is_sym(a):
        return a.py_eq(cx, b)
    return b.py_eq(cx, a)


def v_is_none(cx, a):
    if a is None:
        return True
    if isinstance(a, SVal):
        return a.py_is_none(cx)
    return False


_SWAP = {"<": ">", "<=": ">=", ">": "<", ">=": "<="}
_PYCMP = {"<": "py_lt", "<=": "py_le", ">": "py_gt", ">=": "py_ge"}


def v_cmp(cx, op, a, b):
    if not is_sym(a) and not is_sym(b):
        if a is None or b is None:
            cx.py_raise("TypeError", "ordering comparison with None")
        return {"<": a < b, "<=": a <= b, ">": a > b, ">=": a >= b}[op]
    if is_sym(a):
        m = getattr(a, _PYCMP[op], None)
        if m is None:
            raise Unsupported(f"{op} on {type(a).__name__}")
        return m(cx, b)
    if isinstance(a, tuple):
        return getattr(STuple(a), _PYCMP[op])(cx, b)
    m = getattr(b, _PYCMP[_SWAP[op]], None)
    if m is None:
        raise Unsupported(f"{op} on {type(b).__name__}")
    return m(cx, a)


def v_hash(cx, a):
    if a is None:
        return SInt(z3.IntVal(0x5E1F))
    if isinstance(a, tuple):
        return STuple(a).py_hash(cx)
    if not is_sym(a):
        return lift(a).py_hash(cx)
    return a.py_hash(cx)


def v_isinstance(cx, v, clsname):
    if v is None:
        return clsname in ("NoneType", "object")
    if not is_sym(v):
        names = {c.__name__ for c in type(v).__mro__}
        return clsname in names
    return v.py_isinstance(cx, clsname)


def v_getattr(cx, v, name):
    if v is None:
        cx.py_raise("AttributeError", f"None.{name}")
    if not is_sym(v):
        if isinstance(v, (str, int, tuple, bool)):
            return lift(v).py_getattr(cx, name)
        raise Unsupported(f"getattr on concrete {type(v).__name__}.{name}")
    return v.py_getattr(cx, name)


def v_getitem(cx, v, idx):
    if v is None:
        cx.py_raise("TypeError", "None is not subscriptable")
    if not is_sym(v):
        if not is_sym(idx) and not isinstance(idx, SliceVal):
            try:
                return v[idx]
            except (IndexError, KeyError) as e:
                cx.py_raise(type(e).__name__, str(e))
        if isinstance(idx, SliceVal) and not any(is_sym(x) for x in (idx.lo, idx.hi, idx.step)):
            return v[slice(idx.lo, idx.hi, idx.step)]
        v = lift(v)
    return v.py_getitem(cx, idx)


def v_len(cx, v):
    if not is_sym(v):
        return len(v)
    return v.py_len(cx)


def v_contains(cx, container, item):
    if not is_sym(container):
        if not is_sym(item):
            return item in container
        if isinstance(container, (list, tuple, set, frozenset)):
            cs = [as_bool(cx, v_eq(cx, item, c)) for c in container]
            return z3.Or(*cs) if cs else False
        if isinstance(container, str):
            return z3.Contains(z3.StringVal(container), term(item))
        if isinstance(container, dict):
            cs = [as_bool(cx, v_eq(cx, item, c)) for c in container.keys()]
            return z3.Or(*cs) if cs else False
        raise Unsupported("in on concrete container")
    return container.py_contains(cx, item)


def same_value(cx, a, b):
    """z3 Bool for 'a and b denote the same python value' (for frames/ensures)."""
    r = v_eq(cx, a, b)
    return as_bool(cx, r)
