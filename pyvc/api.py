"""Spec DSL + function runner + solver portfolio of pyvc."""
from __future__ import annotations

import ast
import hashlib
import json
import os
import subprocess
import tempfile
import time
import traceback
from pathlib import Path

import z3

from . import values as V
from .containers import ClassDecl, SMap, SObj, SRef, SSeq, SSet
from .engine import (
    Closure,
    ContractStale,
    Cx,
    Env,
    ExcVal,
    Frame,
    Infeasible,
    Interp,
    ModuleInfo,
    PathEnd,
    PyRaise,
    RepoFunc,
    SClass,
    _Return,
    exc_is_subclass,
    func_kind,
)
from .values import SBool, SInt, SMaybe, SStr, STuple, SVal, Unsupported, as_bool, fresh_name, is_sym

SRC = Path(os.environ.get("VERIF_REPO", "/repo")) / "src" / "metador_core"

ASSUMED_SEMANTICS = [
    "python int is mathematical (z3 Int; exact, python ints are unbounded)",
    "str is a z3 String of code points; ordering is lexicographic by code point (as CPython); code points above 0x2FFFF not represented",
    "`a or b` / `a and b` return operands; truthiness per type",
    "tuple comparison is lexicographic, == component-wise",
    "dict/set iteration order is arbitrary unless the code sorts (over-approximation)",
    "single-threaded; no __del__/signal effects; termination is NOT proved",
]

EXTRACTION_DROPS = [
    "docstrings",
    "type annotations (used only as sort hints in specs)",
    "typing.cast(T, e) -> e",
    "@classmethod/@staticmethod/@property interpreted as binding rules",
    "@overload stubs skipped",
    "f-strings -> concatenation (str() of non-str/int values is an opaque string; only used in messages)",
    "comprehensions over concrete collections unrolled; over symbolic collections replaced by the schema named in the spec",
    "nested def/lambda -> closures over the defining environment",
]


class A(dict):
    """Argument/ghost namespace of one function run (attribute access)."""

    def __getattr__(self, k):
        try:
            return self[k]
        except KeyError:
            raise AttributeError(k)

    def __setattr__(self, k, v):
        self[k] = v


class LoopSpec:
    def __init__(self, invariant, modifies=None, havoc_inplace=(), havoc_heap=(), heap_types=None, bound_by_first_iteration=None):
        self._inv = invariant
        self.modifies = modifies
        # {name: factory(cx)} — locals that are unbound at loop entry and assigned by the body of a `while` loop whose
        # condition holds at entry (an obligation): after the loop they are bound to some value of that shape
        self.bound_by_first_iteration = dict(bound_by_first_iteration or {})
        self.havoc_inplace = tuple(havoc_inplace)
        self.havoc_heap = tuple(havoc_heap)
        self.heap_types = heap_types or {}

    def invariant(self, cx, env, it):
        res = list(self._inv(cx, env, it))
        res.append(("iterator-bounds", it.bounds(cx)))
        return res

    def resolve(self, cx, env, dotted):
        parts = dotted.split(".")
        v = env[parts[0]]
        for p in parts[1:]:
            v = V.v_getattr(cx, v, p)
        return v


class FnSpec:
    """Contract of one repo function. Subclass and override; register with `registry.add(spec)`."""

    file = ""  # path relative to src/metador_core
    qual = ""  # qualified name inside the module
    props = ()  # property ids this contract serves
    inline_always = False
    recursive = False
    raises_exact = True
    pure = False

    def __init__(self):
        self.bindings = {}
        self.loops = {}
        self.comps = {}
        self.inline = set()
        self.init()

    def init(self):
        pass

    # ---- verification side ----
    def setup(self, cx) -> A:
        """Create the symbolic entry state: returns A(param=value...). May add ghost entries."""
        raise NotImplementedError

    def requires(self, cx, a):
        return []

    def hints(self, cx, a):
        """[(name, z3 Bool)] intermediate lemmas about the entry state: each is an obligation of its own
        (proved from requires + earlier hints) and is then available as a fact. Never an unproved assumption."""
        return []

    def ensures(self, cx, a, res):
        """[(name, z3 Bool, clause)] on normal exits."""
        return []

    def raises(self, cx, a):
        """{ExcName: z3 Bool over the ENTRY state}: raises ExcName iff cond (if raises_exact)."""
        return {}

    def on_raise(self, cx, a, exc):
        """[(name, z3 Bool, clause)] that must hold whenever the function raises."""
        return []

    # ---- callee side ----
    def result(self, cx, a):
        """Fresh symbolic result for call sites (constrained by ensures)."""
        return None

    def effects(self, cx, a):
        """Apply the frame at a call site (havoc what `assigns` allows)."""

    def bind_call(self, interp, cx, f, args, kwargs):
        fr = Frame(f.modinfo, f.qual, Env(None), spec=self)
        interp.bind_params(cx, fr, f.node, args, kwargs)
        return A(fr.env.vars)

    def apply(self, cx, a):
        el = getattr(cx, "elem", None)
        if el is not None:  # generic element of a comprehension / sort key: collect instead of forking
            for nm, g in self.requires(cx, a):
                el.fails.append(("AssertionError:call-pre:" + nm, z3.Not(as_bool(cx, g))))
            for exc, cond in (self.raises(cx, a) or {}).items():
                el.fails.append((exc, as_bool(cx, cond)))
            self.effects(cx, a)
            res = self.result(cx, a)
            if not self.pure:
                for item in self.ensures(cx, a, res):
                    el.axioms.append(as_bool(cx, item[1]))
            return res
        for nm, g in self.requires(cx, a):
            cx.oblige(f"call-pre:{self.qual}:{nm}", "call-pre", g)
        for exc, cond in (self.raises(cx, a) or {}).items():
            if cx.decide(cond):
                cx.py_raise(exc, f"raised by contract of {self.qual}")
        self.effects(cx, a)
        res = self.result(cx, a)
        if not self.pure:
            for item in self.ensures(cx, a, res):
                cx.assume(item[1])
        return res


class SpecRegistry:
    def __init__(self):
        self.specs = {}
        self.class_homes = {}
        self.ctors = {}
        self.globals = {}
        self.attr_bindings = {}
        self.method_bindings = {}
        self.inline_ok = set()
        self.elem_order = {}
        self.elem_eq = {}  # class -> (cx, a, b) -> z3 Bool: the contract of the class's own __eq__ (used by `in` on lists)

    def elem_lt(self, cx, elt_type):
        """Strict order used by list.sort() for elements of this type (contract of the element's __lt__)."""
        from .containers import TInt, TRef, TStr

        if isinstance(elt_type, TRef) and elt_type.cls in self.elem_order:
            return self.elem_order[elt_type.cls]
        if isinstance(elt_type, (TInt, TStr)):
            return lambda cx, a, b: a.t < b.t
        raise Unsupported("no element order registered for sort()")

    def add(self, spec: FnSpec):
        self.specs[(spec.file, spec.qual)] = spec
        return spec

    def lookup(self, modinfo, qual):
        rel = str(modinfo.path).split("metador_core/")[-1]
        return self.specs.get((rel, qual))

    def class_home(self, clsname):
        h = self.class_homes.get(clsname)
        if h is None:
            return None
        file, real = h
        return ModuleInfo.load(SRC / file if not os.path.isabs(file) else file), real

    def set_class_home(self, clsname, file, real=None):
        self.class_homes[clsname] = (file, real or clsname)

    def ctor(self, clsname):
        return self.ctors.get(clsname)

    def global_binding(self, modinfo, name):
        rel = str(modinfo.path).split("metador_core/")[-1]
        if (rel, name) in self.globals:
            return self.globals[(rel, name)]
        return self.globals.get(("*", name))

    def attr_binding(self, clsname, name):
        return self.attr_bindings.get((clsname, name))

    def method_binding(self, clsname, name):
        return self.method_bindings.get((clsname, name))

    def may_inline(self, spec, qual):
        return qual in spec.inline or qual in self.inline_ok or ".<locals>." in qual


# ----------------------------------------------------------------------------------------------
# running one function


class FunctionRun:
    MAX_PATHS = 4000

    def __init__(self, registry, spec, tier="quick"):
        self.registry, self.spec, self.tier = registry, spec, tier
        self.interp = Interp(registry)
        self.axioms = []
        self.pending = []
        self.feas_solver = z3.Solver()
        self.feas_solver.set("timeout", 3000)
        self.modinfo = ModuleInfo.load(SRC / spec.file)
        if spec.qual not in self.modinfo.funcs:
            raise ContractStale(f"{spec.file}:{spec.qual} not found in the current source")
        self.node = self.modinfo.funcs[spec.qual]

    def source_info(self):
        n = self.node
        lo, hi = n.lineno, n.end_lineno
        seg = "\n".join(self.modinfo.src.splitlines()[lo - 1 : hi])
        return {"file": "src/metador_core/" + self.spec.file, "qualname": self.spec.qual, "lines": [lo, hi], "sha": hashlib.sha256(seg.encode()).hexdigest()[:16]}

    def explore(self, root=None, split_depth=None):
        """Explore all paths extending `root`. With `split_depth`, alternatives that branch off at or below that
        depth are not explored but returned in self.deferred (subtree roots for parallel workers)."""
        spec = self.spec
        self.pending = [list(root or [])]
        self.deferred = []
        paths = []
        n = 0
        while self.pending:
            dec = self.pending.pop()
            if split_depth is not None and len(dec) > max(split_depth, len(root or [])):
                self.deferred.append(dec)
                continue
            n += 1
            if n > self.MAX_PATHS:
                raise Unsupported(f"more than {self.MAX_PATHS} paths")
            V.reset_counter()
            cx = Cx(self, dec)
            for ax in self.axioms:
                pass
            outcome = None
            try:
                a = spec.setup(cx)
                for item in spec.requires(cx, a):
                    cx.assume(item[1])
                for item in spec.hints(cx, a):
                    if not dec:  # proved once, on the first path
                        cx.oblige(f"hint:{item[0]}", "hint", item[1], clause="intermediate lemma (proof hint)")
                    cx.assume(item[1])
                cls = spec.qual.rsplit(".", 1)[0] if "." in spec.qual and "<locals>" not in spec.qual else None
                fr = Frame(self.modinfo, spec.qual, Env(None), spec=spec, cls=cls)
                params = [p.arg for p in self.node.args.posonlyargs + self.node.args.args + self.node.args.kwonlyargs]
                kwargs = {k: v for k, v in a.items() if k in params}
                pos = []
                self.interp.bind_params(cx, fr, self.node, pos, dict(kwargs, **{k: v for k, v in a.get("__kwargs__", {}).items()}) if self.node.args.kwarg else kwargs)
                if self.node.args.vararg and "__varargs__" in a:
                    fr.env.vars[self.node.args.vararg.arg] = tuple(a["__varargs__"])
                try:
                    self.interp.exec_block(cx, fr, self.node.body)
                    outcome = ("return", None)
                except _Return as r:
                    outcome = ("return", r.value)
                except PyRaise as pr:
                    outcome = ("raise", pr.exc)
                self.finish_path(cx, a, outcome)
            except (PathEnd, Infeasible):
                outcome = ("end", None)
            paths.append({"decisions": list(cx.decisions), "outcome": outcome[0] if outcome else "end", "obls": cx.obls, "pc": list(cx.pc), "exc": outcome[1].cls if outcome and outcome[0] == "raise" else None, "line": cx.cur_line})
        return paths

    def finish_path(self, cx, a, outcome):
        spec = self.spec
        kind, val = outcome
        rz = spec.raises(cx, a) or {}
        if kind == "return":
            for item in spec.ensures(cx, a, val):
                nm, g = item[0], item[1]
                cl = item[2] if len(item) > 2 else ""
                cx.oblige(f"ensures:{nm}", "ensures", g, clause=cl)
            if spec.raises_exact:
                for exc, cond in rz.items():
                    cx.oblige(f"no-raise-expected:{exc}", "raises", z3.Not(as_bool(cx, cond)), clause=f"raises {exc} exactly when specified")
        else:
            exc = val
            match = None
            from .engine import EXC_BASES

            c = exc.cls  # most specific declared class first
            while c is not None and match is None:
                if c in rz:
                    match = (c, rz[c])
                c = EXC_BASES.get(c, "Exception" if c not in ("Exception", "BaseException") and c not in EXC_BASES else None)
            if match is None:
                cx.oblige(f"unspecified-exception:{exc.cls}", "no-exception", z3.BoolVal(False), clause=f"no {exc.cls} outside the contract", line=exc.line)
            else:
                cx.oblige(f"raise-justified:{match[0]}", "raises", match[1], clause=f"raises {match[0]} only when specified", line=exc.line)
            for item in spec.on_raise(cx, a, exc):
                cx.oblige(f"on-raise:{item[0]}", "exceptional-ensures", item[1], clause=item[2] if len(item) > 2 else "", line=exc.line)


# ----------------------------------------------------------------------------------------------
# solving


def solve_query(pc, goal, axioms, timeout_ms, want_model=True):
    """Validity of (axioms ∧ pc) ⇒ goal. Returns (verdict, backend, secs, model_str)."""
    t0 = time.time()
    g = z3.simplify(goal)
    if z3.is_true(g):
        return "discharged", "simplify", 0.0, None
    s = z3.Solver()
    s.set("timeout", timeout_ms)
    for ax in axioms:
        s.add(ax)
    for c in pc:
        s.add(c)
    s.add(z3.Not(goal))
    r = s.check()
    dt = time.time() - t0
    if r == z3.unsat:
        return "discharged", "z3-" + z3.get_version_string(), dt, None
    if r == z3.sat:
        m = s.model()
        return "failed", "z3-" + z3.get_version_string(), dt, model_to_str(m)
    # unknown -> cvc5 on the same query
    v2, dt2, out = cvc5_check(s.to_smt2(), max(2, timeout_ms // 1000))
    if v2 == "unsat":
        return "discharged", "cvc5-1.0.3", dt + dt2, None
    if v2 == "sat":
        return "failed", "cvc5-1.0.3", dt + dt2, out[-1500:]
    return "undecided", f"z3:{s.reason_unknown()};cvc5:{v2}", dt + dt2, None


SCALARS_MARK = "\n#SCALARS#"


def model_scalars(m):
    """Int / String / Bool constants of a counter-model as python values (for replaying it against the real function)."""
    out = {}
    for d in m.decls():
        try:
            if d.arity() != 0:
                continue
            v = m[d]
            if z3.is_int_value(v):
                out[d.name()] = v.as_long()
            elif z3.is_string_value(v):
                out[d.name()] = v.as_string()
            elif z3.is_true(v) or z3.is_false(v):
                out[d.name()] = bool(z3.is_true(v))
        except Exception:  # noqa
            pass
    return out


def model_to_str(m, limit=40):
    items = []
    for d in m.decls()[:limit]:
        try:
            items.append(f"{d.name()} = {m[d]}")
        except Exception:  # noqa
            pass
    txt = "; ".join(items)[:3000]
    try:
        sc = model_scalars(m)
        if sc:
            txt += SCALARS_MARK + json.dumps(sc)
    except Exception:  # noqa
        pass
    return txt


def cvc5_scalars(out):
    """Int / String / Bool constants from cvc5's (get-model) output."""
    import re

    res = {}
    for m in re.finditer(r'\(define-fun\s+(\|[^|]*\||\S+)\s+\(\)\s+(Int|String|Bool)\s+(.*?)\)\s*$', out, re.M):
        name, sort, val = m.group(1).strip("|"), m.group(2), m.group(3).strip()
        try:
            if sort == "Int":
                mm = re.fullmatch(r"\(-\s*(\d+)\)", val)
                res[name] = -int(mm.group(1)) if mm else int(val)
            elif sort == "Bool":
                res[name] = val == "true"
            else:
                if val.startswith('"') and val.endswith('"'):
                    v = val[1:-1].replace('""', '"')
                    v = re.sub(r"\\u\{([0-9a-fA-F]+)\}", lambda g: chr(int(g.group(1), 16)), v)
                    res[name] = v
        except Exception:  # noqa
            pass
    return res


def split_model(txt):
    if isinstance(txt, str) and SCALARS_MARK in txt:
        a, b = txt.split(SCALARS_MARK, 1)
        try:
            return a, json.loads(b)
        except Exception:  # noqa
            return a, None
    return txt, None


def cvc5_check(smt2: str, tlimit_s: int):
    t0 = time.time()
    try:
        with tempfile.NamedTemporaryFile("w", suffix=".smt2", delete=False) as f:
            f.write("(set-logic ALL)\n" + smt2.replace("(set-logic ALL)", ""))
            fn = f.name
        try:
            p = subprocess.run(["/usr/bin/cvc5", "--strings-exp", f"--tlimit={tlimit_s*1000}", fn], capture_output=True, text=True, timeout=tlimit_s + 5)
            out = p.stdout.strip()
        finally:
            os.unlink(fn)
        first = out.splitlines()[0] if out else ""
        if first in ("sat", "unsat"):
            return first, time.time() - t0, out
        return "unknown", time.time() - t0, out + p.stderr[-300:]
    except Exception as e:  # noqa
        return "error", time.time() - t0, str(e)


def explore_function(registry, spec, tier, prop, root=None, split_depth=None):
    """Phase 1: explore all paths of one function; returns a JSON-able report whose obligations carry their
    queries as SMT-LIB text (solved in phase 2 by a shared process pool)."""
    rep = {"fn": f"{spec.file}:{spec.qual}" + (f"[{spec.label}]" if getattr(spec, "label", "") else ""), "status": "ok", "obligations": [], "paths": 0, "queries": [], "covers": [], "roots": []}
    t0 = time.time()
    try:
        run = FunctionRun(registry, spec, tier)
        rep["source"] = run.source_info()
        paths = run.explore(root, split_depth)
        rep["roots"] = run.deferred
    except ContractStale as e:
        rep["status"] = "stale"
        rep["detail"] = str(e)
        rep["obligations"].append({"name": f"{prop}/{spec.file}:{spec.qual}/contract-matches-code", "kind": "stale", "verdict": "stale", "fn": rep["fn"], "detail": str(e), "line": None})
        return rep
    except Unsupported as e:
        rep["status"] = "unsupported"
        rep["detail"] = str(e)
        rep["obligations"].append({"name": f"{prop}/{spec.file}:{spec.qual}/engine-supports-function", "kind": "unsupported", "verdict": "unsupported", "fn": rep["fn"], "detail": str(e), "line": None})
        return rep
    except (AttributeError, TypeError, KeyError, IndexError, z3.Z3Exception) as e:
        # the code took a shape the spec/engine does not anticipate: undecided, never a violation, never a silent pass
        rep["status"] = "unsupported"
        rep["detail"] = f"{type(e).__name__}: {e}\n" + traceback.format_exc()[-1500:]
        rep["obligations"].append({"name": f"{prop}/{spec.file}:{spec.qual}/engine-supports-function", "kind": "unsupported", "verdict": "unsupported", "fn": rep["fn"], "detail": rep["detail"][:600], "line": None})
        return rep
    rep["paths"] = len(paths)
    rep["path_summary"] = [f"{p['outcome']}:{p['exc'] or ''}@L{p['line']} d={''.join(str(int(d)) for d in p['decisions'])}" for p in paths][:200]
    for pi, p in enumerate(paths):
        if p["outcome"] in ("return", "raise"):
            s = z3.Solver()
            for c in p["pc"]:
                s.add(c)
            rep["covers"].append(s.to_smt2())
        for o in p["obls"]:
            name = f"{prop}/{spec.file}:{spec.qual}{('[' + spec.label + ']') if getattr(spec, 'label', '') else ''}/{o.name}"
            g = z3.simplify(o.goal)
            q = {"name": name, "kind": o.kind, "fn": rep["fn"], "clause": o.clause, "line": o.line, "path": pi, "goal_txt": str(g)[:300]}
            if z3.is_true(g):
                q["trivial"] = True
            else:
                s = z3.Solver()
                for c in o.pc:
                    s.add(c)
                s.add(z3.Not(o.goal))
                q["smt2"] = s.to_smt2()
            rep["queries"].append(q)
    rep["explore_s"] = round(time.time() - t0, 2)
    return rep


def solve_text(args):
    """Phase 2 worker: decide one query given as SMT-LIB text. Returns (verdict, backend, secs, model/detail).
    Portfolio: cvc5 is started in the background, z3 gets a short first slice, then cvc5's answer is awaited,
    then z3 gets the rest of the budget. Only `unsat` discharges, only `sat` refutes."""
    smt2, timeout_ms = args
    t0 = time.time()
    cv = Cvc5Job(smt2, max(2, timeout_ms // 1000)) if ("String" in smt2 or "forall" in smt2 or "str." in smt2 or "re." in smt2) else None
    z3ver = "z3-" + z3.get_version_string()

    def run_z3(ms):
        try:
            s = z3.Solver()
            s.set("timeout", ms)
            s.from_string(smt2)
            r = s.check()
            return r, s
        except Exception as e:  # noqa
            return None, str(e)

    try:
        r, s = run_z3(min(2000, timeout_ms))
        if r == z3.unsat:
            return "discharged", z3ver, time.time() - t0, None
        if r == z3.sat:
            return "failed", z3ver, time.time() - t0, model_to_str(s.model())
        if cv is not None:
            v2, out = cv.wait()
            if v2 == "unsat":
                return "discharged", "cvc5-1.0.3", time.time() - t0, None
            if v2 == "sat":
                sc = cvc5_scalars(out)
                return "failed", "cvc5-1.0.3", time.time() - t0, out[-1500:] + (SCALARS_MARK + json.dumps(sc) if sc else "")
        else:
            v2 = "not-run"
        if timeout_ms > 2000:
            r, s = run_z3(timeout_ms - 2000)
            if r == z3.unsat:
                return "discharged", z3ver, time.time() - t0, None
            if r == z3.sat:
                return "failed", z3ver, time.time() - t0, model_to_str(s.model())
        reason = s.reason_unknown() if hasattr(s, "reason_unknown") else str(s)
        dd = os.environ.get("VERIF_DUMP_UNDECIDED")
        if dd:
            os.makedirs(dd, exist_ok=True)
            with open(os.path.join(dd, f"q{abs(hash(smt2))}.smt2"), "w") as f:
                f.write(smt2)
        return "undecided", f"z3:{reason};cvc5:{v2}", time.time() - t0, None
    finally:
        if cv is not None:
            cv.kill()


class Cvc5Job:
    def __init__(self, smt2, tlimit_s):
        self.fn = None
        self.p = None
        try:
            with tempfile.NamedTemporaryFile("w", suffix=".smt2", delete=False) as f:
                f.write("(set-logic ALL)\n" + smt2.replace("(set-logic ALL)", "") + "\n(get-model)\n")  # the model is only printed after `sat` (an error line after `unsat` is ignored)
                self.fn = f.name
            self.tl = tlimit_s
            self.p = subprocess.Popen(["/usr/bin/cvc5", "--strings-exp", "--produce-models", f"--tlimit={tlimit_s*1000}", self.fn], stdout=subprocess.PIPE, stderr=subprocess.PIPE, text=True)
        except Exception:  # noqa
            self.p = None

    def wait(self):
        if self.p is None:
            return "error", ""
        try:
            out, err = self.p.communicate(timeout=self.tl + 5)
        except subprocess.TimeoutExpired:
            self.kill()
            return "unknown", "timeout"
        first = out.strip().splitlines()[0] if out.strip() else ""
        if first in ("sat", "unsat"):
            return first, out
        return "unknown", (out + err)[-300:]

    def kill(self):
        try:
            if self.p is not None and self.p.poll() is None:
                self.p.kill()
        except Exception:  # noqa
            pass
        try:
            if self.fn:
                os.unlink(self.fn)
                self.fn = None
        except Exception:  # noqa
            pass


def cover_text(smt2):
    try:
        s = z3.Solver()
        s.set("timeout", 3000)
        s.from_string(smt2)
        return str(s.check())
    except Exception:  # noqa
        return "unknown"


def assemble(rep, results, cover_results):
    """Group per-path query results into named obligations."""
    groups = {}
    solver_s = 0.0
    for q, res in zip(rep.pop("queries"), results):
        verdict, backend, secs, model = res
        solver_s += secs
        g = groups.setdefault(q["name"], {"name": q["name"], "kind": q["kind"], "fn": q["fn"], "clause": q["clause"], "line": q["line"], "verdict": "discharged", "backend": set(), "secs": 0.0, "queries": 0, "goal_txt": q["goal_txt"]})
        g["queries"] += 1
        g["secs"] += secs
        g["backend"].add(backend)
        if verdict == "failed":
            if g["verdict"] != "failed":
                mtxt, scalars = split_model(model)
                g.update(verdict="failed", model=mtxt, scalars=scalars, line=q["line"], path=q["path"], goal_txt=q["goal_txt"], solver_output="sat")
        elif verdict == "undecided" and g["verdict"] == "discharged":
            g.update(verdict="undecided", line=q["line"], path=q["path"], detail=backend)
    for g in groups.values():
        g["backend"] = "+".join(sorted(g["backend"]))
        g["secs"] = round(g["secs"], 3)
        rep["obligations"].append(g)
    rep.pop("covers", None)
    rep["feasible_exits"] = sum(1 for c in cover_results if c == "sat")
    rep["unknown_exits"] = sum(1 for c in cover_results if c == "unknown")
    rep["solver_s"] = solver_s
    rep["queries"] = len(results)
    if rep["status"] == "ok" and cover_results and rep["feasible_exits"] == 0 and rep["unknown_exits"] == 0:
        rep["status"] = "vacuous"
    return rep


def verify_function(registry, spec, tier, prop):
    """Serial convenience wrapper (used by debugging scripts)."""
    rep = explore_function(registry, spec, tier, prop)
    timeout_ms = 20000 if tier == "quick" else 60000
    results = [("discharged", "simplify", 0.0, None) if q.get("trivial") else solve_text((q["smt2"], timeout_ms)) for q in rep.get("queries", [])]
    covers = [cover_text(c) for c in rep.get("covers", [])]
    return assemble(rep, results, covers)


# ----------------------------------------------------------------------------------------------
# comprehension schemas


def filter_comprehension(interp, cx, fr, e):
    """Schema for `[x for x in SEQ if P(x)]` over a symbolic sequence (order-embedding axiomatisation):
    the result is the subsequence of SEQ, in order, of exactly the elements satisfying P.
    P is evaluated on a universally quantified element; it must be pure and fork-free."""
    if len(e.generators) != 1 or not isinstance(e, ast.ListComp):
        raise Unsupported("filter schema: shape")
    g = e.generators[0]
    if not (isinstance(e.elt, ast.Name) and isinstance(g.target, ast.Name) and e.elt.id == g.target.id):
        raise ContractStale("filter schema: element expression is not the loop variable")
    src = interp.eval(cx, fr, g.iter)
    if interp.iter_concrete(cx, src) is not None:
        return NotImplemented  # concrete source: the ordinary unrolled comprehension applies
    if not isinstance(src, SSeq):
        raise Unsupported("filter schema: source is not a symbolic sequence")
    src = src.snapshot()

    def P(elem_val):
        sub = Frame(fr.modinfo, fr.qual, Env(fr.env), spec=fr.spec, cls=fr.cls)
        sub.env.set(g.target.id, elem_val)
        cx.pure_depth = getattr(cx, "pure_depth", 0) + 1
        try:
            conds = [as_bool(cx, V.truth(cx, interp.eval(cx, sub, c))) for c in g.ifs]
        finally:
            cx.pure_depth -= 1
        return z3.And(*conds) if conds else z3.BoolVal(True)

    res = SSeq.fresh(src.elt, "filtered")
    f = z3.Function(fresh_name("flt_f"), z3.IntSort(), z3.IntSort())
    gg = z3.Function(fresh_name("flt_g"), z3.IntSort(), z3.IntSort())
    i, j = z3.Int(fresh_name("fi")), z3.Int(fresh_name("fj"))
    n_r, n_s = res.n, src.n
    cx.assume(z3.ForAll([j], z3.Implies(z3.And(0 <= j, j < n_r), z3.And(0 <= f(j), f(j) < n_s, res.at_term(j) == src.at_term(f(j)), P(src.at(f(j))), gg(f(j)) == j))))
    cx.assume(z3.ForAll([i, j], z3.Implies(z3.And(0 <= i, i < j, j < n_r), f(i) < f(j))))
    cx.assume(z3.ForAll([i], z3.Implies(z3.And(0 <= i, i < n_s, P(src.at(i))), z3.And(0 <= gg(i), gg(i) < n_r, f(gg(i)) == i))))
    cx.ghost.setdefault("filters", []).append((res, src, f, gg, P))
    return res


def map_comprehension(interp, cx, fr, e):
    """Schema for `[f(x) for x in SEQ]`, `{k(x): v(x) for x in SEQ}`, `{f(x) for x in SEQ}` over a symbolic list:
    the element expressions are evaluated once on a generic element src[i]; if some element evaluation can raise,
    the comprehension raises (first collected exception class), otherwise the result is described pointwise."""
    from .containers import SMap, SSet, TRef

    if len(e.generators) != 1 or e.generators[0].ifs:
        return NotImplemented
    g = e.generators[0]
    src = interp.eval(cx, fr, g.iter)
    if interp.iter_concrete(cx, src) is not None:
        return NotImplemented
    if not isinstance(src, SSeq):
        raise Unsupported("map schema: source is not a symbolic list")
    src = src.snapshot()
    n = src.n
    i = z3.Int(fresh_name("mi"))
    exprs = [e.key, e.value] if isinstance(e, ast.DictComp) else [e.elt]
    sub_fr = Frame(fr.modinfo, fr.qual, Env(fr.env), spec=fr.spec, cls=fr.cls)
    vals, fails, axioms = interp.eval_exprs_on_element(cx, sub_fr, g.target, src.at(i), exprs, i)
    rng_i = z3.And(0 <= i, i < n)
    if fails:
        anyfail = z3.Exists([i], z3.And(rng_i, z3.Or(*[c for _, c in fails])))
        if cx.decide(anyfail):
            cx.py_raise(fails[0][0], "element evaluation failed in comprehension")
        cx.assume(z3.ForAll([i], z3.Implies(rng_i, z3.Not(z3.Or(*[c for _, c in fails])))))
    for ax in axioms:
        cx.assume(z3.ForAll([i], z3.Implies(rng_i, ax)))
    cx.ghost.setdefault("maps", []).append((e, src, i, vals))
    if isinstance(e, ast.ListComp) or isinstance(e, ast.GeneratorExp):
        v = vals[0]
        elt = type_of_value(v)
        res = SSeq.fresh(elt, "mapped")
        cx.assume(res.n == n)
        cx.assume(z3.ForAll([i], z3.Implies(rng_i, res.at_term(i) == elt.unwrap(cx, v))))
        return res
    if isinstance(e, ast.DictComp):
        k, v = vals
        kt, vt = type_of_value(k), type_of_value(v)
        res = SMap.fresh(kt, vt, "mapped")
        kk = z3.Const(fresh_name("mk"), kt.sort())
        kterm, vterm = kt.unwrap(cx, k), vt.unwrap(cx, v)
        cx.assume(z3.ForAll([kk], res.has(kk) == z3.Exists([i], z3.And(rng_i, kterm == kk))))
        cx.assume(z3.ForAll([i], z3.Implies(rng_i, z3.And(res.has(kterm), res.get_term(kterm) == vterm))))
        j = z3.Int(fresh_name("mj"))
        cx.oblige("dict-comprehension:value-determined-by-key", "schema", z3.ForAll([i, j], z3.Implies(z3.And(rng_i, 0 <= j, j < n, kterm == z3.substitute(kterm, (i, j))), vterm == z3.substitute(vterm, (i, j)))), clause="dict comprehension schema applies (equal keys give equal values)")
        return res
    if isinstance(e, ast.SetComp):
        v = vals[0]
        kt = type_of_value(v)
        vterm = kt.unwrap(cx, v)
        kk = z3.Const(fresh_name("sk"), kt.sort())
        res = SSet.fresh(kt, "image")
        cx.assume(z3.ForAll([kk], res.has(kk) == z3.Exists([i], z3.And(rng_i, vterm == kk))))
        j = z3.Int(fresh_name("sj"))
        card = z3.Int(fresh_name("card"))
        inj = z3.ForAll([i, j], z3.Implies(z3.And(rng_i, 0 <= j, j < n, i != j), vterm != z3.substitute(vterm, (i, j))))
        cx.assume(z3.And(card >= 0, card <= n, (card == n) == inj))  # T4: |image| = |domain| iff injective
        res.card = card
        return res
    return NotImplemented


def type_of_value(v):
    from .containers import BOOL, INT, STR, SRef, TRef

    if isinstance(v, (SInt, int)) and not isinstance(v, bool):
        return INT
    if isinstance(v, (SStr, str)):
        return STR
    if isinstance(v, (SBool, bool)):
        return BOOL
    if isinstance(v, SRef):
        return TRef(v.cls)
    if hasattr(v, "type_desc"):
        return v.type_desc()
    raise Unsupported(f"no type descriptor for {v!r}")



def set_keys_filter(interp, cx, fr, e):
    """Schema for `{k for k, v in MAP.items() if P(k, v)}` over a symbolic dict: exactly the keys of MAP satisfying P."""
    from .containers import MapItems, SSet

    if not isinstance(e, ast.SetComp) or len(e.generators) != 1:
        return NotImplemented
    g = e.generators[0]
    src = interp.eval(cx, fr, g.iter)
    if not isinstance(src, MapItems):
        return NotImplemented
    if not (isinstance(g.target, ast.Tuple) and len(g.target.elts) == 2 and all(isinstance(x, ast.Name) for x in g.target.elts)):
        raise ContractStale("set filter schema: target shape")
    kn, vn = g.target.elts[0].id, g.target.elts[1].id
    if not (isinstance(e.elt, ast.Name) and e.elt.id == kn):
        raise ContractStale("set filter schema: the element expression is not the key variable")
    m = src.m
    snap = m.snapshot()
    kk = z3.Const(fresh_name("sk"), m.kt.sort())
    sub_fr = Frame(fr.modinfo, fr.qual, Env(fr.env), spec=fr.spec, cls=fr.cls)
    sub_fr.env.set(kn, m.kt.wrap(kk))
    sub_fr.env.set(vn, m.vt.wrap(snap.get_term(kk)))
    vals, fails, axioms = interp.eval_exprs_on_element(cx, sub_fr, None, None, g.ifs, kk)
    P = z3.And(*[as_bool(cx, V.truth(cx, v)) for v in vals]) if vals else z3.BoolVal(True)
    for exc, fc in fails:
        cx.oblige(f"comprehension-element-total:{exc}", "no-exception", z3.ForAll([kk], z3.Implies(snap.has(kk), z3.Not(fc))), clause="the filter condition is defined for every entry")
    for ax in axioms:
        cx.assume(z3.ForAll([kk], z3.Implies(snap.has(kk), ax)))
    res = SSet.fresh(m.kt, "filtered_keys")
    cx.assume(z3.ForAll([kk], res.has(kk) == z3.And(snap.has(kk), P)))
    return res


def read_guarded_append_callback(interp, cx, cb, spec, elem_of, extra_env=None):
    """Read a visit callback of the shape

        def cb(a, node):
            if G1: return            (zero or more guards)
            x = E                    (zero or more plain assignments)
            if D: <list>.append(node)

    and return (<the list object>, pred) where pred(node_term) is the condition under which the callback appends the
    visited node: not G1 and ... and D, with the assignments substituted. Every expression is evaluated in element mode
    on a generic node (elem_of(term) wraps a term as the node value); anything else in the body makes the contract stale.
    """
    from .engine import Closure, Env, Frame
    from .values import truth as _truth

    if not isinstance(cb, Closure) or not isinstance(cb.node, ast.FunctionDef) or len(cb.node.args.args) != 2:
        raise Unsupported("visit callback is not a nested def of two parameters")
    fn = cb.node
    pn = fn.args.args[1].arg
    body = [st for st in fn.body if not (isinstance(st, ast.Expr) and isinstance(st.value, ast.Constant))]
    if not body or not isinstance(body[-1], ast.If) or body[-1].orelse or len(body[-1].body) != 1:
        raise ContractStale("the visit callback does not end in `if cond: list.append(node)`")
    last = body[-1].body[0]
    ok = (isinstance(last, ast.Expr) and isinstance(last.value, ast.Call) and isinstance(last.value.func, ast.Attribute) and last.value.func.attr == "append"
          and isinstance(last.value.func.value, ast.Name) and len(last.value.args) == 1 and isinstance(last.value.args[0], ast.Name) and last.value.args[0].id == pn)  # fmt: skip
    if not ok:
        raise ContractStale("the visit callback does not append the visited node itself")
    target = cb.env.lookup(last.value.func.value.id)
    steps = []
    for st in body[:-1]:
        if isinstance(st, ast.If) and not st.orelse and len(st.body) == 1 and isinstance(st.body[0], ast.Return) and st.body[0].value is None:
            steps.append(("guard", st.test))
        elif isinstance(st, ast.Assign) and len(st.targets) == 1 and isinstance(st.targets[0], ast.Name):
            steps.append(("let", st.targets[0].id, st.value))
        else:
            raise ContractStale(f"statement of another shape in the visit callback (line {st.lineno})")
    steps.append(("cond", body[-1].test))

    def pred(node_t):
        sub = Frame(cb.modinfo, spec.qual, Env(cb.env), spec=spec)
        sub.env.set(fn.args.args[0].arg, SStr(z3.String(fresh_name("visit_path"))))
        sub.env.set(pn, elem_of(node_t))
        for k, v in (extra_env or {}).items():
            sub.env.set(k, v)
        conj = []
        for step in steps:
            if step[0] == "let":
                vals, fails, axioms = interp.eval_exprs_on_element(cx, sub, None, None, [step[2]], node_t)
                if fails or axioms:
                    raise Unsupported("an assignment in the visit callback may raise")
                sub.env.set(step[1], vals[0])
                continue
            vals, fails, axioms = interp.eval_exprs_on_element(cx, sub, None, None, [step[1]], node_t)
            if fails or axioms:
                raise Unsupported("a condition in the visit callback may raise")
            c = as_bool(cx, _truth(cx, vals[0]))
            conj.append(z3.Not(c) if step[0] == "guard" else c)
        return z3.And(*conj)

    return target, pred


def dict_items_filter(interp, cx, fr, e):
    """Schema for `{k: v for k, v in [sorted](MAP.items()[, key=...]) if P(k, v)}` over a symbolic dict:
    the result maps exactly the keys of MAP satisfying P to their values (iteration order is not modelled)."""
    from .containers import MapItems, SMap

    if not isinstance(e, ast.DictComp) or len(e.generators) != 1:
        return NotImplemented
    g = e.generators[0]
    it = g.iter
    if isinstance(it, ast.Call) and isinstance(it.func, ast.Name) and it.func.id == "sorted":
        it = it.args[0]
    src = interp.eval(cx, fr, it)
    if not isinstance(src, MapItems):
        return NotImplemented
    if not (isinstance(g.target, ast.Tuple) and len(g.target.elts) == 2 and all(isinstance(x, ast.Name) for x in g.target.elts)):
        raise ContractStale("dict filter schema: target shape")
    kn, vn = g.target.elts[0].id, g.target.elts[1].id
    if not (isinstance(e.key, ast.Name) and e.key.id == kn and isinstance(e.value, ast.Name) and e.value.id == vn):
        raise ContractStale("dict filter schema: key/value expressions are not the loop variables")
    m = src.m
    snap = m.snapshot()
    kk = z3.Const(fresh_name("dk"), m.kt.sort())
    sub_fr = Frame(fr.modinfo, fr.qual, Env(fr.env), spec=fr.spec, cls=fr.cls)
    sub_fr.env.set(kn, m.kt.wrap(kk))
    sub_fr.env.set(vn, m.vt.wrap(snap.get_term(kk)))
    conds_nodes = g.ifs
    vals, fails, axioms = interp.eval_exprs_on_element(cx, sub_fr, None, None, conds_nodes, kk)
    P = z3.And(*[as_bool(cx, V.truth(cx, v)) for v in vals]) if vals else z3.BoolVal(True)
    for exc, fc in fails:
        cx.oblige(f"comprehension-element-total:{exc}", "no-exception", z3.ForAll([kk], z3.Implies(snap.has(kk), z3.Not(fc))), clause="the filter condition is defined for every entry")
    for ax in axioms:
        cx.assume(z3.ForAll([kk], z3.Implies(snap.has(kk), ax)))
    res = SMap.fresh(m.kt, m.vt, "filtered_map")
    cx.assume(z3.ForAll([kk], z3.And(res.has(kk) == z3.And(snap.has(kk), P), z3.Implies(res.has(kk), res.get_term(kk) == snap.get_term(kk)))))
    return res
