"""P-tier entry: python3-vt -m pyvc.run <ID> --tier T --json OUT [--only SUBSTR] [--show]

Loads specs/<id>.py (build(registry) -> {"verify": [FnSpec...], "lemmas": [(name, fn)...], "trusted": [...], "assumptions": [...]})
re-reads the functions' current source text from /repo, generates and discharges all obligations.
"""
from __future__ import annotations

import argparse
import importlib
import json
import os
import sys
import time
import traceback
from concurrent.futures import ProcessPoolExecutor, as_completed


SPLIT_DEPTH = 8


def _verify_one(args):
    pid, idx, tier = args[:3]
    root = args[3] if len(args) > 3 else None
    import z3  # noqa

    from pyvc import api

    mod = importlib.import_module(f"specs.{pid.lower()}")
    reg = api.SpecRegistry()
    built = mod.build(reg)
    spec = built["verify"][idx]
    try:
        return api.explore_function(reg, spec, tier, pid, root=root, split_depth=SPLIT_DEPTH)
    except Exception:  # noqa
        return {"fn": f"{spec.file}:{spec.qual}", "status": "crash", "detail": traceback.format_exc()[-3000:], "obligations": []}


def _lemma_one(args):
    pid, idx, tier = args
    import z3

    from pyvc import api

    mod = importlib.import_module(f"specs.{pid.lower()}")
    reg = api.SpecRegistry()
    built = mod.build(reg)
    name, fn = built.get("lemmas", [])[idx]
    t0 = time.time()
    try:
        res = []
        for sub, hyps, goal in fn():
            v, backend, secs, model = api.solve_query(hyps, goal, [], 20000 if tier == "quick" else 60000)
            res.append({"name": f"{pid}/lemma:{name}/{sub}", "kind": "lemma", "fn": f"lemma:{name}", "verdict": v, "backend": backend, "secs": round(secs, 3), "model": model, "line": None, "clause": sub, "goal_txt": str(goal)[:300], "queries": 1})
        return {"fn": f"lemma:{name}", "status": "ok", "obligations": res, "solver_s": sum(r["secs"] for r in res), "feasible_exits": 1, "paths": 0}
    except Exception:  # noqa
        return {"fn": f"lemma:{name}", "status": "crash", "detail": traceback.format_exc()[-3000:], "obligations": []}


def main():
    ap = argparse.ArgumentParser()
    ap.add_argument("pid")
    ap.add_argument("--tier", default="quick")
    ap.add_argument("--json")
    ap.add_argument("--only", default="")
    ap.add_argument("--show", action="store_true")
    ap.add_argument("--jobs", type=int, default=int(os.environ.get("VERIF_JOBS", "12")))
    a = ap.parse_args()
    pid = a.pid.upper()
    out = {"present": False}
    t0 = time.time()
    try:
        try:
            mod = importlib.import_module(f"specs.{pid.lower()}")
        except ModuleNotFoundError as e:
            if e.name != f"specs.{pid.lower()}":
                raise
            mod = None
        if mod is not None:
            from pyvc import api

            reg = api.SpecRegistry()
            built = mod.build(reg)
            n = len(built["verify"])
            nl = len(built.get("lemmas", []))
            names_ = [f"{sp.file}:{sp.qual}" + (f"[{sp.label}]" if getattr(sp, "label", "") else "") for sp in built["verify"]]
            dups_ = sorted({x for x in names_ if names_.count(x) > 1})
            if dups_:
                # two contracts reported under one name: evidence, obligation baseline and seed audit are keyed by that name
                print(f"SPEC-ERROR {pid}: several contracts for the same function in one check: {dups_}")
                sys.exit(3)
            reports = []
            jobs = [("v", i) for i in range(n)] + [("l", i) for i in range(nl)]
            if a.only:
                jobs = [j for j in jobs if a.only in (f"{built['verify'][j[1]].file}:{built['verify'][j[1]].qual}" if j[0] == "v" else "lemma:" + built["lemmas"][j[1]][0]) or any(a.only.find(x) >= 0 for x in [])]
            timeout_ms = 20000 if a.tier == "quick" else 60000
            with ProcessPoolExecutor(max_workers=max(1, a.jobs)) as ex:
                futs = [(ex.submit(_verify_one if k == "v" else _lemma_one, (pid, i, a.tier)), k, i) for k, i in jobs]
                pending = []  # (report, future lists) — queries are solved while other functions still explore
                merged = []
                for f, k, i in futs:
                    r = f.result()
                    # deep functions: subtrees below SPLIT_DEPTH are explored by parallel workers
                    todo = [ex.submit(_verify_one, (pid, i, a.tier, root)) for root in r.get("roots", [])] if k == "v" else []
                    while todo:
                        sub = todo.pop(0).result()
                        if sub.get("status") != "ok":
                            r["status"], r["detail"] = sub.get("status"), sub.get("detail", "")
                            r.setdefault("obligations", []).extend(sub.get("obligations", []))
                            continue
                        r["queries"] = r.get("queries", []) + sub.get("queries", [])
                        r["covers"] = r.get("covers", []) + sub.get("covers", [])
                        r["paths"] = r.get("paths", 0) + sub.get("paths", 0)
                        todo += [ex.submit(_verify_one, (pid, i, a.tier, root)) for root in sub.get("roots", [])]
                    merged.append(r)
                for r in merged:
                    if "queries" in r and isinstance(r["queries"], list):
                        seen = {}
                        qf = []
                        for q in r["queries"]:
                            if q.get("trivial"):
                                qf.append(None)
                            else:
                                key = hash(q["smt2"])
                                if key not in seen:
                                    seen[key] = ex.submit(api.solve_text, (q["smt2"], timeout_ms))
                                qf.append(seen[key])
                        cf_ = [ex.submit(api.cover_text, c) for c in r.get("covers", [])[:6]]
                        pending.append((r, qf, cf_))
                    else:
                        reports.append(r)
                for r, qf, cf_ in pending:
                    results = [("discharged", "simplify", 0.0, None) if x is None else x.result() for x in qf]
                    for q in r["queries"]:
                        q.pop("smt2", None)
                    reports.append(api.assemble(r, results, [c.result() for c in cf_]))
            obligations, functions, crash = [], [], None
            canaries = canaries_ok = 0
            by_fn = {f"{sp.file}:{sp.qual}": sp for sp in built["verify"]}
            for r in reports:
                sp = by_fn.get(r["fn"])
                for o in r["obligations"]:
                    # a refuted obligation of a value-level function: the spec may turn the counter-model into a call of the real function
                    if o.get("verdict") == "failed" and o.get("scalars") and sp is not None and hasattr(sp, "native_plan"):
                        try:
                            plan = sp.native_plan(o["scalars"], o)
                        except Exception as e:  # noqa
                            plan = None
                            o["native_plan_error"] = repr(e)
                        if plan:
                            o["native_plan"] = plan
                obligations += r["obligations"]
                if r["status"] == "crash":
                    crash = (crash or "") + f"\n{r['fn']}: {r.get('detail','')}"
                if not r["fn"].startswith("lemma:"):
                    canaries += 1
                    if r.get("feasible_exits", 0) > 0:
                        canaries_ok += 1
                    elif r["status"] == "vacuous":
                        crash = (crash or "") + f"\nvacuity: no feasible exit path for {r['fn']} (contradictory requires/axioms?)"
                src = r.get("source", {})
                if a.show and os.environ.get("VERIF_PATHS"):
                    print(r["fn"], *r.get("path_summary", []), sep="\n   ")
                functions.append({"fn": r["fn"], "status": r["status"], "lines": src.get("lines"), "sha": src.get("sha"), "paths": r.get("paths"), "obligations": len(r["obligations"]), "queries": r.get("queries"), "detail": r.get("detail", "")[:300],
                                  "obligation_names": sorted(o["name"].split("/", 3)[-1] if o["name"].count("/") >= 3 else o["name"] for o in r["obligations"])})
            out = {
                "present": True,
                "functions": functions,
                "obligations": obligations,
                "self_checks": {"functions_with_feasible_exit": canaries_ok, "functions": canaries},
                "trusted": built.get("trusted", []),
                "assumptions": api.ASSUMED_SEMANTICS + built.get("assumptions", []),
                "dropped": api.EXTRACTION_DROPS,
                "solver_s": sum(r.get("solver_s", 0.0) for r in reports),
                "crash": crash,
                "wall_s": round(time.time() - t0, 2),
            }
    except Exception:  # noqa
        out = {"present": True, "crash": traceback.format_exc()[-4000:], "obligations": []}
    if a.show or not a.json:
        for f in out.get("functions", []):
            print(f"FN {f['fn']} status={f['status']} paths={f['paths']} obligations={f['obligations']} {f['detail']}")
        for o in out.get("obligations", []):
            print(f"  [{o['verdict']:>11}] {o['name']}  ({o.get('backend')}, {o.get('secs')}s, q={o.get('queries')}) L{o.get('line')}")
            if o["verdict"] in ("failed",):
                print(f"       goal: {o.get('goal_txt')}\n       model: {str(o.get('model'))[:600]}")
                if o.get("native_plan"):
                    print(f"       replay on the real function: {json.dumps(o['native_plan'])[:400]}")
            if o["verdict"] in ("unsupported", "stale", "undecided"):
                print(f"       detail: {o.get('detail')}")
        if out.get("crash"):
            print("CRASH:", out["crash"])
    if a.json:
        with open(a.json, "w") as f:
            json.dump(out, f, default=repr)
    return 0


if __name__ == "__main__":
    sys.exit(main())
