"""Python `re` pattern -> z3 regular expression (subset: literals, classes, ranges, ?, *, +, {m,n}, groups,
alternation, '.', anchors ^/$ at the ends only). Used for full-match / prefix-match conditions read from the source."""
from __future__ import annotations

try:
    import re._parser as sre_parse  # py3.11+
    import re._constants as sre_c
except ImportError:  # pragma: no cover
    import sre_constants as sre_c
    import sre_parse

import z3

from .values import Unsupported

MAXCP = 0x2FFFF


def _chr(c):
    return z3.StringVal(chr(c))


def _cls(items, negate=False):
    parts = []
    for op, av in items:
        op = str(op)
        if op == "NEGATE":
            negate = True
        elif op == "LITERAL":
            parts.append(z3.Re(_chr(av)))
        elif op == "RANGE":
            lo, hi = av
            parts.append(z3.Range(chr(lo), chr(hi)))
        elif op == "CATEGORY":
            cat = str(av)
            if cat == "CATEGORY_DIGIT":
                parts.append(z3.Range("0", "9"))  # ASCII only (python \d also matches other Nd; sources here use [0-9])
            else:
                raise Unsupported(f"regex category {cat}")
        else:
            raise Unsupported(f"regex class item {op}")
    u = parts[0] if len(parts) == 1 else z3.Union(*parts)
    if negate:
        anychar = z3.Range(chr(0), chr(MAXCP))
        return z3.Intersect(anychar, z3.Complement(u))
    return u


def _seq(items):
    res = []
    for op, av in items:
        op = str(op)
        if op == "LITERAL":
            res.append(z3.Re(_chr(av)))
        elif op == "NOT_LITERAL":
            res.append(z3.Intersect(z3.Range(chr(0), chr(MAXCP)), z3.Complement(z3.Re(_chr(av)))))
        elif op == "ANY":
            res.append(z3.Intersect(z3.Range(chr(0), chr(MAXCP)), z3.Complement(z3.Re(z3.StringVal("\n")))))
        elif op == "IN":
            res.append(_cls(av))
        elif op in ("MAX_REPEAT", "MIN_REPEAT"):
            lo, hi, sub = av
            r = _seq(sub)
            if hi == sre_c.MAXREPEAT:
                if lo == 0:
                    res.append(z3.Star(r))
                elif lo == 1:
                    res.append(z3.Plus(r))
                else:
                    res.append(z3.Concat(*([r] * lo), z3.Star(r)))
            else:
                res.append(z3.Loop(r, lo, hi))
        elif op == "SUBPATTERN":
            res.append(_seq(av[3]))
        elif op == "BRANCH":
            res.append(z3.Union(*[_seq(b) for b in av[1]]))
        elif op == "AT":
            continue  # anchors handled by the caller (only accepted at the ends)
        elif op == "ASSERT":
            raise Unsupported("regex lookahead")
        else:
            raise Unsupported(f"regex op {op}")
    if not res:
        return z3.Re(z3.StringVal(""))
    return res[0] if len(res) == 1 else z3.Concat(*res)


def to_z3(pattern: str):
    """Return (regex, anchored_start, anchored_end)."""
    p = sre_parse.parse(pattern)
    items = list(p)
    a_start = bool(items) and str(items[0][0]) == "AT" and str(items[0][1]) in ("AT_BEGINNING", "AT_BEGINNING_STRING")
    a_end = bool(items) and str(items[-1][0]) == "AT" and str(items[-1][1]) in ("AT_END", "AT_END_STRING")
    inner = items[1 if a_start else 0 : len(items) - (1 if a_end else 0)]
    for op, av in inner:
        if str(op) == "AT":
            raise Unsupported("regex anchor in the middle")
    return _seq(inner), a_start, a_end


def fullmatch(pattern: str, s):
    r, _, a_end = to_z3(pattern)
    # python: `$` also matches before a trailing newline; fullmatch ignores that subtlety only if no `$` is used
    if a_end:
        r = z3.Union(r, z3.Concat(r, z3.Re(z3.StringVal("\n"))))
    return z3.InRe(s, r)


def match_prefix(pattern: str, s):
    """re.match(pattern, s) is not None  (match at the start; `$` = end or before final newline)."""
    r, _, a_end = to_z3(pattern)
    if a_end:
        return z3.Or(z3.InRe(s, r), z3.InRe(s, z3.Concat(r, z3.Re(z3.StringVal("\n")))))
    anything = z3.Star(z3.Range(chr(0), chr(MAXCP)))
    return z3.InRe(s, z3.Concat(r, anything))
