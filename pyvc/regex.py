"""Python `re` pattern -> z3 regular expression (subset: literals, classes, ranges, ?, *, +, {m,n}, groups,
alternation, '.', anchors ^/$ at the ends only). Used for full-match / prefix-match conditions read from the source."""
from __future__ import annotations

try:
    import re._parser as sre_parse  # py3.11+
    import re._constants as sre_c
except ImportError:  # pragma: no cover
    import sre_constants as sre_c
    import sre_parse

import z3

from .values import Unsupported

MAXCP = 0x2FFFF


def _chr(c):
    return z3.StringVal(chr(c))


def _cls(items, negate=False):
    parts = []
    for op, av in items:
        op = str(op)
        if op == "NEGATE":
            negate = True
        elif op == "LITERAL":
            parts.append(z3.Re(_chr(av)))
        elif op == "RANGE":
            lo, hi = av
            parts.append(z3.Range(chr(lo), chr(hi)))
        elif op == "CATEGORY":
            cat = str(av)
            if cat == "CATEGORY_DIGIT":
                parts.append(z3.Range("0", "9"))  # ASCII only (python \d also matches other Nd; sources here use [0-9])
            else:
                raise Unsupported(f"regex category {cat}")
        else:
            raise Unsupported(f"regex class item {op}")
    u = parts[0] if len(parts) == 1 else z3.Union(*parts)
    if negate:
        anychar = z3.Range(chr(0), chr(MAXCP))
        return z3.Intersect(anychar, z3.Complement(u))
    return u


def _seq(items):
    res = []
    for op, av in items:
        op = str(op)
        if op == "LITERAL":
            res.append(z3.Re(_chr(av)))
        elif op == "NOT_LITERAL":
            res.append(z3.Intersect(z3.Range(chr(0), chr(MAXCP)), z3.Complement(z3.Re(_chr(av)))))
        elif op == "ANY":
            res.append(z3.Intersect(z3.Range(chr(0), chr(MAXCP)), z3.Complement(z3.Re(z3.StringVal("\n")))))
        elif op == "IN":
            res.append(_cls(av))
        elif op in ("MAX_REPEAT", "MIN_REPEAT"):
            lo, hi, sub = av
            r = _seq(sub)
            if hi == sre_c.MAXREPEAT:
                if lo == 0:
                    res.append(z3.Star(r))
                elif lo == 1:
                    res.append(z3.Plus(r))
                else:
                    res.append(z3.Concat(*([r] * lo), z3.Star(r)))
            else:
                res.append(z3.Loop(r, lo, hi))
        elif op == "SUBPATTERN":
            res.append(_seq(av[3]))
        elif op == "BRANCH":
            res.append(z3.Union(*[_seq(b) for b in av[1]]))
        elif op == "AT":
            continue  # anchors handled by the caller (only accepted at the ends)
        elif op == "ASSERT":
            raise Unsupported("regex lookahead")
        else:
            raise Unsupported(f"regex op {op}")
    if not res:
        return z3.Re(z3.StringVal(""))
    return res[0] if len(res) == 1 else z3.Concat(*res)


def to_z3(pattern: str):
    """Return (regex, anchored_start, anchored_end)."""
    p = sre_parse.parse(pattern)
    items = list(p)
    a_start = bool(items) and str(items[0][0]) == "AT" and str(items[0][1]) in ("AT_BEGINNING", "AT_BEGINNING_STRING")
    a_end = bool(items) and str(items[-1][0]) == "AT" and str(items[-1][1]) in ("AT_END", "AT_END_STRING")
    inner = items[1 if a_start else 0 : len(items) - (1 if a_end else 0)]
    for op, av in inner:
        if str(op) == "AT":
            raise Unsupported("regex anchor in the middle")
    return _seq(inner), a_start, a_end


def fullmatch(pattern: str, s):
    r, _, a_end = to_z3(pattern)
    # python: `$` also matches before a trailing newline; fullmatch ignores that subtlety only if no `$` is used
    if a_end:
        r = z3.Union(r, z3.Concat(r, z3.Re(z3.StringVal("\n"))))
    return z3.InRe(s, r)


def match_prefix(pattern: str, s):
    """re.match(pattern, s) is not None  (match at the start; `$` = end or before final newline)."""
    r, _, a_end = to_z3(pattern)
    if a_end:
        return z3.Or(z3.InRe(s, r), z3.InRe(s, z3.Concat(r, z3.Re(z3.StringVal("\n")))))
    anything = z3.Star(z3.Range(chr(0), chr(MAXCP)))
    return z3.InRe(s, z3.Concat(r, anything))


def _char_code_cond(item, code):
    """membership of ONE character (given by its code point) in a class / literal item, as integer arithmetic"""
    op, av = str(item[0]), item[1]
    if op == "LITERAL":
        return code == av
    if op == "NOT_LITERAL":
        return code != av
    if op != "IN":
        return None
    neg, alts = False, []
    for o, v in av:
        o = str(o)
        if o == "NEGATE":
            neg = True
        elif o == "LITERAL":
            alts.append(code == v)
        elif o == "RANGE":
            alts.append(z3.And(code >= v[0], code <= v[1]))
        elif o == "CATEGORY" and str(v) == "CATEGORY_DIGIT":
            alts.append(z3.And(code >= 48, code <= 57))
        else:
            return None
    c = z3.Or(*alts) if alts else z3.BoolVal(False)
    return z3.Not(c) if neg else c


def match_prefix_parts(parts, s):
    """re.match(PATTERN, s) is not None where PATTERN is the concatenation of `parts`:
    ("re", text) = regular-expression source text, ("lit", term) = a z3 string term that is matched literally
    (the caller must have shown that it contains no regex metacharacters).
    Leading literal parts are expressed positionally (prefix + rest of the string), which string solvers handle much
    better than a regular expression built from a symbolic string."""
    parts = list(parts)
    conds = []
    cur = s
    if parts and parts[0][0] == "re" and parts[0][1] in ("^", "\\A"):
        parts = parts[1:]  # re.match anchors at the start anyway
    offset = z3.IntVal(0)
    while parts and parts[0][0] == "lit":
        t = parts.pop(0)[1]
        conds.append(z3.PrefixOf(t, cur))
        offset = z3.Length(t) if z3.is_int_value(offset) and offset.as_long() == 0 else offset + z3.Length(t)
        cur = z3.SubString(cur, z3.Length(t), z3.Length(cur) - z3.Length(t))
    if len(parts) == 1 and parts[0][0] == "re":
        # one single-character item (class / literal) followed by anything: say it about that one character
        try:
            items = [x for x in sre_parse.parse(parts[0][1]) if str(x[0]) != "AT"]
            has_end = any(str(x[0]) == "AT" and str(x[1]) in ("AT_END", "AT_END_STRING") for x in sre_parse.parse(parts[0][1]))
        except Exception:  # noqa
            items, has_end = [], True
        if len(items) == 1 and str(items[0][0]) in ("IN", "LITERAL", "NOT_LITERAL") and not has_end:
            ch = z3.SubString(s, offset, 1)
            code = _char_code_cond(items[0], z3.StrToCode(ch))
            if code is not None:
                return z3.And(*conds, z3.Length(ch) == 1, code)
            return z3.And(*conds, z3.InRe(ch, _seq(items)))
    res = []
    a_end = False
    for i, (kind, x) in enumerate(parts):
        if kind == "lit":
            res.append(z3.Re(x))
            continue
        r, a_s, a_e = to_z3(x)
        if a_s:
            raise Unsupported("regex anchor ^ in the middle")
        if a_e and i != len(parts) - 1:
            raise Unsupported("regex anchor $ in the middle")
        a_end = a_end or a_e
        res.append(r)
    if not res:
        return z3.And(*conds) if conds else z3.BoolVal(True)
    r = res[0] if len(res) == 1 else z3.Concat(*res)
    if a_end:
        tail = z3.Or(z3.InRe(cur, r), z3.InRe(cur, z3.Concat(r, z3.Re(z3.StringVal("\n")))))
    else:
        tail = z3.InRe(cur, z3.Concat(r, z3.Star(z3.Range(chr(0), chr(MAXCP)))))
    return z3.And(*conds, tail)
