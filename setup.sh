#!/bin/sh
# Offline setup: nothing to build; verify the two interpreters and solvers are usable.
set -e
python3-vt -c "import z3, cvc5; print('z3', z3.get_version_string())"
/venv/bin/python -c "import h5py, pydantic; print('h5py', h5py.__version__)"
mkdir -p evidence replays
